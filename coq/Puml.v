(* Puml.v - transcription of the PlantUML front-end's tokenizer (front/puml/puml.hpp, namespace detail):
   std::string_view operations with size_t positions (npos = 2^64-1, wrap-around arithmetic as in C++),
   cleanup_token, parse_guards, parse_row_right, parse_row, count_transitions, count_actions, parse_action.
   Strings are lists of character codes. *)
From Msm Require Import Base.
From Coq Require Import NArith.
Local Open Scope N_scope.

Definition str := list nat.
Definition W : N := 18446744073709551616.      (* 2^64 *)
Definition npos : N := 18446744073709551615.
Definition wadd (a b:N) : N := (a + b) mod W.
Definition wsub (a b:N) : N := (a + W - (b mod W)) mod W.
Definition size (s:str) : N := N.of_nat (length s).

Definition c_space := 32%nat. Definition c_tab := 9%nat. Definition c_dash := 45%nat. Definition c_gt := 62%nat.
Definition c_colon := 58%nat. Definition c_slash := 47%nat. Definition c_lbr := 91%nat. Definition c_rbr := 93%nat.
Definition c_comma := 44%nat. Definition c_nl := 10%nat. Definition c_star := 42%nat.
Definition pad_chars : str := [c_dash; c_space; c_tab].         (* "- \t" *)

Fixpoint is_prefix (p s:str) : bool :=
  match p, s with
  | [], _ => true
  | a :: p', b :: s' => Nat.eqb a b && is_prefix p' s'
  | _ :: _, [] => false
  end.

(* index (counted from i) of the first suffix of s that starts with pat *)
Fixpoint find_at (pat s:str) (i:N) : N :=
  if is_prefix pat s then i
  else match s with
       | [] => npos
       | _ :: t => find_at pat t (i + 1)
       end.
(* s.find(pat, from) *)
Definition find_from (pat s:str) (from:N) : N :=
  if size s <? from then npos else find_at pat (skipn (N.to_nat from) s) from.
Definition find (pat s:str) : N := find_from pat s 0.

Fixpoint ffno_at (set s:str) (i:N) : N :=
  match s with
  | [] => npos
  | c :: t => if memb c set then ffno_at set t (i + 1) else i
  end.
Definition find_first_not_of (set s:str) : N := ffno_at set s 0.
(* last index whose character is not in set *)
Fixpoint flno_at (set s:str) (i:N) (best:N) : N :=
  match s with
  | [] => best
  | c :: t => flno_at set t (i + 1) (if memb c set then best else i)
  end.
Definition find_last_not_of (set s:str) : N := flno_at set s 0 npos.

(* s.substr(pos, len); pos > size() would throw (a compile error in the constexpr parser): modelled as empty *)
Definition substr (s:str) (pos len:N) : str :=
  if size s <? pos then []
  else firstn (N.to_nat (N.min len (size s - pos))) (skipn (N.to_nat pos) s).
Definition substr_from (s:str) (pos:N) : str := substr s pos npos.

Definition cleanup_token (s:str) : str :=
  let first := find_first_not_of pad_chars s in
  let last := find_last_not_of pad_chars s in
  if negb (first =? npos) && negb (last =? npos)
  then substr s first (wadd (wsub last first) 1)
  else [].

Record transition := Transition { t_source : str; t_target : str; t_event : str; t_guard : str; t_action : str }.
Definition empty_transition := Transition [] [] [] [] [].

Definition parse_guards (part:str) : str :=
  let start_pos := find [c_lbr] part in
  let end_pos := find [c_rbr] part in
  if negb (start_pos =? npos) && negb (end_pos =? npos)
  then cleanup_token (substr part (wadd start_pos 1) (wsub end_pos (wadd start_pos 1)))
  else [].

Definition parse_row_right (part:str) : transition :=
  let action_pos := find [c_slash] part in
  let guard_pos := find [c_lbr] part in
  let evt_pos := find [c_colon] part in
  let internal_pos := find [c_dash] part in
  let is_internal := negb (internal_pos =? npos) && (evt_pos <? internal_pos)
                     && (internal_pos <=? action_pos) && (internal_pos <=? guard_pos) in
  let start_event_name_pos := if internal_pos =? npos then evt_pos else internal_pos in
  let target :=
    if negb (evt_pos =? npos) && negb is_internal then cleanup_token (substr part 0 evt_pos)
    else if negb is_internal then cleanup_token part else [] in
  let event :=
    if (action_pos =? npos) && (guard_pos =? npos)
    then cleanup_token (substr_from part (wadd start_event_name_pos 1))
    else let m := N.min action_pos guard_pos in
         let len := if wadd 1 start_event_name_pos <? m then wsub (wsub m 1) start_event_name_pos else 0 in
         cleanup_token (substr part (wadd start_event_name_pos 1) len) in
  let action :=
    if negb (action_pos =? npos) && negb (guard_pos =? npos)
    then cleanup_token (substr part (wadd action_pos 1) (wsub (wsub guard_pos 1) action_pos))
    else if negb (action_pos =? npos) then cleanup_token (substr_from part (wadd action_pos 1))
    else [] in
  Transition [] target event (parse_guards (cleanup_token part)) action.

Definition c_arrow : str := [c_dash; c_gt].

Definition parse_row (row:str) : transition :=
  let arrow_pos := find c_arrow row in
  let puml_event_pos := find [c_colon] row in
  let left := substr row 0 arrow_pos in
  let right := substr_from row (wadd arrow_pos 2) in
  if negb (puml_event_pos =? npos)
  then let r := parse_row_right right in
       Transition (cleanup_token left) (t_target r) (t_event r) (t_guard r) (t_action r)
  else if negb (arrow_pos =? npos)
  then Transition (cleanup_token left) (cleanup_token right) [] [] []
  else empty_transition.

(* count_actions: number of comma separated parts (0 for the empty string) *)
Fixpoint count_char (c:nat) (s:str) : nat :=
  match s with [] => 0%nat | x :: t => ((if Nat.eqb x c then 1 else 0) + count_char c t)%nat end.
Definition count_actions (s:str) : nat :=
  match s with [] => 0%nat | _ => S (count_char c_comma s) end.

(* parse_action<a>: the a-th comma separated part, trimmed (fuel = length bound for the do-while) *)
Fixpoint parse_action_loop (fuel:nat) (actions:str) (prev_pos:N) (cpt a:nat) : str :=
  match fuel with
  | O => []
  | S f =>
      let pos := find_from [c_comma] actions prev_pos in
      if Nat.eqb cpt a then cleanup_token (substr actions prev_pos (wsub pos prev_pos))
      else if pos =? npos then []
      else parse_action_loop f actions (wadd pos 1) (S cpt) a
  end.
Definition parse_action (a:nat) (actions:str) : str := parse_action_loop (S (length actions)) actions 0 0%nat a.

(* count_transitions: occurrences of "->" *)
Fixpoint count_transitions_loop (fuel:nat) (s:str) (pos:N) : nat :=
  match fuel with
  | O => 0%nat
  | S f => let p := find_from c_arrow s pos in
           if p =? npos then 0%nat else S (count_transitions_loop f s (wadd p 2))
  end.
Definition count_transitions (s:str) : nat := count_transitions_loop (S (length s)) s 0.

(* parse_stt<t>: the t-th transition line of a whole description. A line counts as a transition line iff it contains
   "->" and no "[*]" in front of its end (initial and terminate lines are skipped); fuel = bound for the do-while *)
Definition c_initstar : str := [c_lbr; c_star; c_rbr].
Fixpoint parse_stt_loop (fuel:nat) (stt:str) (prev_pos:N) (cpt t:nat) : transition :=
  match fuel with
  | O => empty_transition
  | S f =>
      let pos := find_from [c_nl] stt prev_pos in
      let tsym := find_from c_arrow stt prev_pos in
      let isym := find_from c_initstar stt prev_pos in
      if (isym <? pos) || (pos <=? tsym)
      then (if pos =? npos then empty_transition else parse_stt_loop f stt (wadd pos 1) cpt t)
      else if Nat.eqb cpt t then parse_row (substr stt prev_pos (wsub pos prev_pos))
      else if pos =? npos then empty_transition else parse_stt_loop f stt (wadd pos 1) (S cpt) t
  end.
Definition parse_stt (t:nat) (stt:str) : transition := parse_stt_loop (S (length stt)) stt 0 0%nat t.

(* s.rfind(pat, pos): the last index <= pos at which pat occurs (npos if none) *)
Fixpoint rfind_at (pat s:str) (i limit best:N) : N :=
  let best' := if is_prefix pat s && (i <=? limit) then i else best in
  match s with
  | [] => best'
  | _ :: t => rfind_at pat t (i + 1) limit best'
  end.
Definition rfind (pat s:str) (pos:N) : N := rfind_at pat s 0 pos npos.

(* count_inits: the number of "[*] -> State" lines (the recursion on substrings is transcribed with fuel) *)
Fixpoint count_inits_loop (fuel:nat) (s:str) (occ:nat) : nat :=
  match fuel with
  | O => occ
  | S f =>
      let star_pos := find c_initstar s in
      if star_pos =? npos then occ
      else
        let endl := find_from [c_nl] s star_pos in
        let arrow := find_from c_arrow s star_pos in
        if (star_pos <? arrow) && (arrow <? endl) then count_inits_loop f (substr_from s endl) (S occ)
        else count_inits_loop f (substr_from s (wadd star_pos 3)) occ
  end.
Definition count_inits (s:str) : nat := count_inits_loop (S (length s)) s 0%nat.

(* count_terminates: the number of "State -> [*]" lines *)
Fixpoint count_terminates_loop (fuel:nat) (s:str) (occ:nat) : nat :=
  match fuel with
  | O => occ
  | S f =>
      match s with
      | [] => occ
      | _ =>
          let star_pos := find c_initstar s in
          let arrow := rfind c_arrow s star_pos in
          let endl := rfind [c_nl] s star_pos in
          if negb (star_pos =? npos) && negb (arrow =? npos) && (endl <? arrow)
          then count_terminates_loop f (substr_from s (wadd star_pos 3)) (S occ)
          else if negb (star_pos =? npos) then count_terminates_loop f (substr_from s (wadd star_pos 3)) occ
          else occ
      end
  end.
Definition count_terminates (s:str) : nat := count_terminates_loop (S (length s)) s 0%nat.
