(* PumlGuard.v - transcription of detail::find_top_level and detail::parse_guard_simple (front/puml/puml.hpp):
   guard expressions with !, &&, || and parentheses -> And_/Or_/Not_ tree. *)
From Msm Require Import Base Puml.
From Coq Require Import NArith ZArith.
Local Open Scope N_scope.

Definition c_lpar := 40%nat. Definition c_rpar := 41%nat. Definition c_bang := 33%nat.
Definition c_amp := 38%nat. Definition c_bar := 124%nat.
Definition s_or : str := [c_bar; c_bar].
Definition s_and : str := [c_amp; c_amp].

(* find_top_level(s, op): the loop over i with the int depth counter; s is the rest of the string from index i *)
Fixpoint ftl (op s:str) (depth:Z) (i:N) : N :=
  match s with
  | [] => npos
  | c :: t =>
      if Nat.eqb c c_lpar then ftl op t (depth + 1)%Z (i + 1)
      else if Nat.eqb c c_rpar then ftl op t (depth - 1)%Z (i + 1)
      else if (depth =? 0)%Z && is_prefix op s then i
      else ftl op t depth (i + 1)
  end.
Definition find_top_level (s op:str) : N := ftl op s 0%Z 0.

Inductive gexp := GName (n:str) | GNot (g:gexp) | GAnd (a b:gexp) | GOr (a b:gexp).

Definition starts_with (c:nat) (s:str) : bool := match s with x :: _ => Nat.eqb x c | [] => false end.
Definition ends_with (c:nat) (s:str) : bool := match rev s with x :: _ => Nat.eqb x c | [] => false end.

(* parse_guard_simple; every recursive instantiation works on a strictly shorter string, fuel = S (length s) is enough *)
Fixpoint parse_guard_simple (fuel:nat) (s:str) : option gexp :=
  match fuel with
  | O => None
  | S f =>
      let or_pos := find_top_level s s_or in
      let and_pos := find_top_level s s_and in
      if negb (or_pos =? npos) then
        match parse_guard_simple f (cleanup_token (substr s 0 or_pos)),
              parse_guard_simple f (cleanup_token (substr_from s (wadd or_pos 2))) with
        | Some a, Some b => Some (GOr a b)
        | _, _ => None
        end
      else if negb (and_pos =? npos) then
        match parse_guard_simple f (cleanup_token (substr s 0 and_pos)),
              parse_guard_simple f (cleanup_token (substr_from s (wadd and_pos 2))) with
        | Some a, Some b => Some (GAnd a b)
        | _, _ => None
        end
      else if starts_with c_bang s then
        option_map GNot (parse_guard_simple f (cleanup_token (substr_from s 1)))
      else if starts_with c_lpar s && ends_with c_rpar s then
        parse_guard_simple f (cleanup_token (substr s 1 (wsub (size s) 2)))
      else Some (GName s)
  end.
Definition parse_guard (s:str) : option gexp := parse_guard_simple (S (length s)) s.

(* what a guard tree means: its value under a valuation of the named guards, with C++ evaluation *)
Fixpoint geval (v:str -> bool) (g:gexp) : bool :=
  match g with
  | GName n => v n
  | GNot a => negb (geval v a)
  | GAnd a b => geval v a && geval v b
  | GOr a b => geval v a || geval v b
  end.

Fixpoint gshow (g:gexp) : str :=
  match g with
  | GName n => n
  | GNot a => [c_lpar; 110; 111; 116; 32]%nat ++ gshow a ++ [c_rpar]
  | GAnd a b => [c_lpar; 97; 110; 100; 32]%nat ++ gshow a ++ [32%nat] ++ gshow b ++ [c_rpar]
  | GOr a b => [c_lpar; 111; 114; 32]%nat ++ gshow a ++ [32%nat] ++ gshow b ++ [c_rpar]
  end.
