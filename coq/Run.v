(* Run.v - tie the levels into a processor for a whole definition; operations; run. *)
From Msm Require Export Mp11Level.

Fixpoint build (cf:cfg) (parents:list (option nat)) (contained:bool) (mc:machine) {struct mc} : child_ops :=
  let children := map (fun st => match s_sub st with
                                 | Some c => Some (build cf parents true c)
                                 | None => None end) (m_states mc) in
  match c_be cf with
  | Mp11 => mp11_ops cf parents contained mc children
  | _ => back_ops cf parents contained mc children
  end.

Definition default_fuel := 400.

Definition run_m (m:M unit) (rn:rnode) (val:list nat) (plan:list (nat * cmd)) : rnode * list titem :=
  let '(r, rn', g) := m rn (Glob [] 0 plan val [] 0) in
  (rn', rev (match r with Some _ => g_tr g | None => Escaped :: g_tr g end)).

Definition direct_code (cf:cfg) : nat := match c_be cf with Mp11 => INFO_DIRECT | _ => SRC_DIRECT end.

Definition run_op (cf:cfg) (root:machine) (ops:child_ops) (fuel:nat) (rn:rnode) (o:op) : rnode * list titem :=
  match o with
  | OStart val plan => run_m (co_start ops fuel) rn val plan
  | OStop plan => run_m (co_stop ops fuel) rn [] plan
  | OProcess e val plan => run_m (c <- co_pei ops fuel e (direct_code cf) ;; emit (Res c)) rn val plan
  | OEnqueue e => run_m (co_enqueue ops e) rn [] []
  | ODrain val plan => run_m (co_drain ops fuel 0) rn val plan
  | ODrain1 val plan => run_m (co_drain ops fuel 1) rn val plan
  | OReset => (init_rnode root, [])
  | _ => (rn, [Bad 3])
  end.

(* the active configuration as the introspection API reports it: ids of the root and, recursively,
   of every submachine that is the active state of a region *)
(* ---- several machine objects: copies, moves, serialization ---- *)
(* are there stored events anywhere in the object (a copy of a back / back11 machine would share them) *)
Fixpoint has_pending (rn:rnode) {struct rn} : bool :=
  let 'RN _ ks _ q d _ _ _ := rn in
  negb (match q with [] => true | _ => false end) || negb (match d with [] => true | _ => false end) ||
  (fix go (l:list (option rnode)) : bool :=
     match l with [] => false | Some k :: t => has_pending k || go t | None :: t => go t end) ks.

(* what a moved-from backmp11 machine looks like: every pool emptied, everything else as before *)
Fixpoint moved_from (rn:rnode) {struct rn} : rnode :=
  let 'RN a ks h _ d c p r := rn in
  RN a ((fix go (l:list (option rnode)) : list (option rnode) :=
           match l with [] => [] | Some k :: t => Some (moved_from k) :: go t | None :: t => None :: go t end) ks)
     h [] d c p r.

(* what Boost.Serialization saves and restores: active ids, history, the processing flag, recursively; not the queues *)
Fixpoint loaded_from (rn:rnode) {struct rn} : rnode :=
  let 'RN a ks h _ _ _ p r := rn in
  RN a ((fix go (l:list (option rnode)) : list (option rnode) :=
           match l with [] => [] | Some k :: t => Some (loaded_from k) :: go t | None :: t => None :: go t end) ks)
     h [] [] 0%Z p r.

Definition world := list (option rnode).
Definition wget (w:world) (k:nat) : option rnode := nth k w None.

Definition run_wop (cf:cfg) (root:machine) (ops:child_ops) (fuel:nat) (w:world) (o:op) : world * list titem :=
  match o with
  | OOn k o' =>
      match wget w k with
      | Some rn => let '(rn', tr) := run_op cf root ops fuel rn o' in (upd w k (Some rn'), tr)
      | None => (w, [Bad 3])
      end
  | OCopy dst src | OAssign dst src =>
      match wget w src with
      | Some rn =>
          (* back / back11 copy the bound closures of pending events: they stay bound to the source object *)
          (upd w dst (Some rn),
           match c_be cf with Mp11 => [] | _ => if has_pending rn then [Bad 4] else [] end)
      | None => (w, [Bad 3])
      end
  | OMove dst src =>
      match wget w src with
      | Some rn => (upd (upd w dst (Some rn)) src (Some (moved_from rn)), [])
      | None => (w, [Bad 3])
      end
  | OSaveLoad dst src =>
      match wget w src with
      | Some rn => (upd w dst (Some (loaded_from rn)), if has_pending rn then [Bad 4] else [])
      | None => (w, [Bad 3])
      end
  | _ =>
      match wget w 0 with
      | Some rn => let '(rn', tr) := run_op cf root ops fuel rn o in (upd w 0 (Some rn'), tr)
      | None => (w, [Bad 3])
      end
  end.

Definition init_world (root:machine) : world := [Some (init_rnode root); None; None; None].

Fixpoint snapshot (mc:machine) {struct mc} : rnode -> list nat -> list (list nat * list nat) :=
  let kidsf := map (fun st => match s_sub st with Some c => Some (snapshot c) | None => None end) (m_states mc) in
  fun rn path =>
    (path, act rn) ::
    flat_map (fun s => match nth s kidsf None, nth s (kids rn) None with
                       | Some f, Some kn => f kn (path ++ [s])
                       | _, _ => []
                       end) (act rn).

(* is_flag_active<F>() and is_flag_active<F, AND>() of the root for the flags 0 .. n-1 *)
Definition flags_snapshot (ops:child_ops) (rn:rnode) (n:nat) : list (bool * bool) :=
  map (fun f => (co_flag_or ops rn f, co_flag_and ops rn f)) (seqn 0 n).

Fixpoint run_ops (cf:cfg) (root:machine) (ops:child_ops) (fuel:nat) (rn:rnode) (l:list op)
  : list (list titem * list (list nat * list nat)) :=
  match l with
  | [] => []
  | o :: t => let '(rn', tr) := run_op cf root ops fuel rn o in
              (tr, snapshot root rn' []) :: run_ops cf root ops fuel rn' t
  end.

Definition run (cf:cfg) (md:mdef) (l:list op) : list (list titem * list (list nat * list nat)) :=
  run_ops cf (md_root md) (build cf (md_parents md) false (md_root md)) default_fuel (init_rnode (md_root md)) l.
