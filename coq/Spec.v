(* Spec.v - the UML run-to-completion step of a hierarchical machine as a short pure function on abstract
   configurations.  It knows nothing about result codes, dispatch tables, chains, queues, processing markers, sequence
   counters or fuel: a configuration is the active state of every region, one sub-configuration per submachine state and
   the history memory.  The engines (BackLevel.v, Mp11Level.v) are proved to refine it on the core fragment
   (Lemmas_SpecBack.v, Lemmas_SpecMp11.v); cross-engine, cross-policy and property statements are then corollaries
   about this function alone. *)
From Msm Require Export Run.

Inductive conf := Conf (a:list nat) (k:list (option conf)) (h:list nat).
Definition c_act (c:conf) := let 'Conf a _ _ := c in a.
Definition c_kids (c:conf) := let 'Conf _ k _ := c in k.
Definition c_hist (c:conf) := let 'Conf _ _ h := c in h.
Definition c_set_act (c:conf) (a:list nat) := let 'Conf _ k h := c in Conf a k h.
Definition c_set_hist (c:conf) (h:list nat) := let 'Conf a k _ := c in Conf a k h.
Definition c_set_kid (c:conf) (s:nat) (k:conf) := let 'Conf a ks h := c in Conf a (upd ks s (Some k)) h.
Definition c_set_slot (c:conf) (r s:nat) := c_set_act c (upd (c_act c) r s).

(* what of a runtime tree is configuration *)
Fixpoint abs (rn:rnode) {struct rn} : conf :=
  let 'RN a ks h _ _ _ _ _ := rn in
  Conf a ((fix go (l:list (option rnode)) : list (option conf) :=
             match l with [] => [] | Some k :: t => Some (abs k) :: go t | None :: t => None :: go t end) ks) h.

(* a step yields: behaviour invocations (newest first, as the interpreter's trace) and the new configuration *)
Definition sres := (list titem * conf)%type.
Definition sfn := evt -> conf -> sres.

(* ---- leaving ---- *)
Definition sp_post_exit (mc:machine) (c:conf) : conf :=
  match m_hist mc with HNone => c | _ => c_set_hist c (c_act c) end.

(* leave state s: a submachine's substates first (recursively), then its own exit behaviour, then it remembers where
   it was; a simple state: its exit behaviour *)
Definition sp_exit_state (subs:list (option sfn)) (ev:evt) (s:nat) (acc:sres) : sres :=
  let '(items, c) := acc in
  match nth s subs None, nth s (c_kids c) None with
  | Some f, Some k =>
      let '(inner, k1) := f ev k in
      (Cb KMExit [s] 0 ev false (c_act c) :: map (push_path s) inner ++ items, c_set_kid c s k1)
  | _, _ => (Cb KExit [] s ev false (c_act c) :: items, c)
  end.

(* leave a machine: the active state of every region, in region order *)
Fixpoint sp_exit (mc:machine) {struct mc} : sfn :=
  let subs := map (fun st => match s_sub st with
                             | Some m => Some (fun ev k => let '(it, k1) := sp_exit m ev k in (it, sp_post_exit m k1))
                             | None => None end) (m_states mc) in
  fun ev c => fold_left (fun acc r => sp_exit_state subs ev (nth r (c_act (snd acc)) 0) acc) (seqn 0 (m_nreg mc)) ([], c).

(* ---- entering ---- *)
Definition sp_hist_entry (mc:machine) (c:conf) (ety:nat) : list nat :=
  match m_hist mc with
  | HNone => m_inits mc
  | HAlways => c_hist c
  | HShallow evs => if memb ety evs then c_hist c else m_inits mc
  end.

(* enter state s: a submachine first places its regions (initial states or history), then its own entry behaviour
   runs, then the state of every region is entered, in region order; a simple state: its entry behaviour *)
Definition sp_enter_state (subs:list (option (machine * sfn))) (ev:evt) (s:nat) (acc:sres) : sres :=
  let '(items, c) := acc in
  match nth s subs None, nth s (c_kids c) None with
  | Some (m, f), Some k =>
      let '(inner, k1) := f ev (c_set_act k (sp_hist_entry m k (e_ty ev))) in
      (map (push_path s) inner ++ Cb KMEntry [s] 0 ev false (c_act c) :: items, c_set_kid c s k1)
  | _, _ => (Cb KEntry [] s ev false (c_act c) :: items, c)
  end.

Fixpoint sp_enter (mc:machine) {struct mc} : sfn :=
  let subs := map (fun st => match s_sub st with Some m => Some (m, sp_enter m) | None => None end) (m_states mc) in
  fun ev c => fold_left (fun acc r => sp_enter_state subs ev (nth r (c_act (snd acc)) 0) acc) (seqn 0 (m_nreg mc)) ([], c).

Definition sp_exit_subs (mc:machine) : list (option sfn) :=
  map (fun st => match s_sub st with
                 | Some m => Some (fun ev k => let '(it, k1) := sp_exit m ev k in (it, sp_post_exit m k1))
                 | None => None end) (m_states mc).
Definition sp_enter_subs (mc:machine) : list (option (machine * sfn)) :=
  map (fun st => match s_sub st with Some m => Some (m, sp_enter m) | None => None end) (m_states mc).

(* ---- one transition ---- *)
(* the region's slot is switched from the source to the target at the point the active-state-switch policy names;
   what the behaviours observe in between is the only thing the policy influences *)
Definition sp_take (pol:nat) (mc:machine) (r:nat) (x:row) (ev:evt) (c:conf) : sres :=
  let act_item c := match r_act x with ActCall => [Cb KAction [] (r_id x) ev false (c_act c)] | _ => [] end in
  match tgt_state (r_tgt x) with
  | None => (act_item c, c)                                      (* internal transition: the action only *)
  | Some nxt =>
      let cur := r_src x in
      let c0 := c_set_slot c r (switch_id pol 0 cur nxt) in
      let '(i1, c1) := sp_exit_state (sp_exit_subs mc) ev cur ([], c0) in
      let c2 := c_set_slot c1 r (switch_id pol 1 cur nxt) in
      let i2 := act_item c2 in
      let c3 := c_set_slot c2 r (switch_id pol 2 cur nxt) in
      let '(i3, c4) := sp_enter_state (sp_enter_subs mc) ev nxt ([], c3) in
      (i3 ++ i2 ++ i1, c_set_slot c4 r (switch_id pol 3 cur nxt))
  end.

(* outcome of offering the event somewhere: was a transition taken, did some guard say no *)
Record outcome := Out { o_taken : bool; o_rejected : bool; o_items : list titem; o_conf : conf }.

(* candidates in priority order: the first whose guard holds is taken, guards before it are evaluated once each and
   found false, nothing after it is looked at *)
Fixpoint sp_rows (pol:nat) (mc:machine) (r:nat) (ev:evt) (val:list nat) (l:list row) (c:conf) : outcome :=
  match l with
  | [] => Out false false [] c
  | x :: t =>
      if r_guard x then
        let b := memb (r_id x) val in
        let gi := Cb (KGuard b) [] (r_id x) ev false (c_act c) in
        if b then (let '(i, c') := sp_take pol mc r x ev c in Out true false (i ++ [gi]) c')
        else (let o := sp_rows pol mc r ev val t c in Out (o_taken o) true (o_items o ++ [gi]) (o_conf o))
      else (let '(i, c') := sp_take pol mc r x ev c in Out true false i c')
  end.

Definition sp_matches (ety:nat) (x:row) : bool :=
  match r_trig x with TrEv e => Nat.eqb e ety | _ => false end.
(* candidates of state s: its own internal table (simple states), then the table rows leaving it; last declared first *)
Definition sp_candidates (mc:machine) (s ety:nat) : list row :=
  (if is_sub mc s then [] else rev (filter (sp_matches ety) (s_irows (get_state mc s))))
  ++ rev (filter (fun x => Nat.eqb (r_src x) s && sp_matches ety x) (m_rows mc)).

(* one region: an active submachine is offered the event first; only if it did not take a transition are the
   enclosing machine's rows for that submachine state tried *)
Definition sp_region (pol:nat) (mc:machine) (subs:list (option (evt -> list nat -> conf -> outcome)))
           (ev:evt) (val:list nat) (r:nat) (c:conf) : outcome :=
  let s := nth r (c_act c) 0 in
  match nth s subs None, nth s (c_kids c) None with
  | Some f, Some k =>
      let o1 := f ev val k in
      let c1 := c_set_kid c s (o_conf o1) in
      let i1 := map (push_path s) (o_items o1) in
      if o_taken o1 then Out true (o_rejected o1) i1 c1
      else (let o2 := sp_rows pol mc r ev val (sp_candidates mc s (e_ty ev)) c1 in
            Out (o_taken o2) (o_rejected o1 || o_rejected o2) (o_items o2 ++ i1) (o_conf o2))
  | _, _ => sp_rows pol mc r ev val (sp_candidates mc s (e_ty ev)) c
  end.

Definition sp_regions (pol:nat) (mc:machine) (subs:list (option (evt -> list nat -> conf -> outcome)))
           (ev:evt) (val:list nat) (c:conf) : outcome :=
  fold_left (fun o r => let o' := sp_region pol mc subs ev val r (o_conf o) in
                        Out (o_taken o || o_taken o') (o_rejected o || o_rejected o') (o_items o' ++ o_items o) (o_conf o'))
            (seqn 0 (m_nreg mc)) (Out false false [] c).

(* a machine level: every region once, in order; the machine's own internal table only if no region took a
   transition *)
Fixpoint sp_level (pol:nat) (mc:machine) {struct mc} : evt -> list nat -> conf -> outcome :=
  let subs := map (fun st => match s_sub st with Some m => Some (sp_level pol m) | None => None end) (m_states mc) in
  fun ev val c =>
    let o := sp_regions pol mc subs ev val c in
    if o_taken o then o
    else (let o2 := sp_rows pol mc 0 ev val (rev (filter (sp_matches (e_ty ev)) (m_irows mc))) (o_conf o) in
          Out (o_taken o2) (o_rejected o || o_rejected o2) (o_items o2 ++ o_items o) (o_conf o2)).
Definition sp_level_subs (pol:nat) (mc:machine) : list (option (evt -> list nat -> conf -> outcome)) :=
  map (fun st => match s_sub st with Some m => Some (sp_level pol m) | None => None end) (m_states mc).

(* process_event on the outermost machine: the step, then no_transition for every region if nothing matched anywhere *)
Definition sp_process (pol:nat) (mc:machine) (ev:evt) (val:list nat) (c:conf) : outcome :=
  let o := sp_level pol mc ev val c in
  if o_taken o || o_rejected o then o
  else Out false false (rev (map (fun s => Cb KNoTrans [] s ev false (c_act (o_conf o))) (c_act (o_conf o))) ++ o_items o) (o_conf o).

(* events stored from outside (enqueue_event) are dispatched oldest first, each as a complete step on the configuration
   the previous one left (the guard valuation is the one of the operation during which they are dispatched) *)
Fixpoint sp_drain (pol:nat) (mc:machine) (val:list nat) (evs:list evt) (c:conf) : sres :=
  match evs with
  | [] => ([], c)
  | e :: t => let o := sp_process pol mc e val c in
              let '(i, c') := sp_drain pol mc val t (o_conf o) in (i ++ o_items o, c')
  end.

(* ---- the fragment on which the engines are proved to be this function ---- *)
Definition core_row (nstates:nat) (x:row) : Prop :=
  (exists e, r_trig x = TrEv e /\ e <> EV_NONE) /\ r_act x <> ActDefer /\ r_exitpt x = None /\
  (r_tgt x = TgNone \/ exists t, r_tgt x = TgState t).
Definition core_irow (x:row) : Prop :=
  (exists e, r_trig x = TrEv e /\ e <> EV_NONE) /\ r_act x <> ActDefer /\ r_exitpt x = None /\ r_tgt x = TgNone.

Fixpoint core (mc:machine) {struct mc} : Prop :=
  let 'Machine states inits rows irows hist := mc in
  Forall (core_row (length states)) rows /\ Forall core_irow irows /\
  (fix all (l:list state) : Prop :=
     match l with
     | [] => True
     | State k sub sirows defers _ _ :: t =>
         defers = [] /\ Forall core_irow sirows /\
         match sub with
         | Some m => k = KSub /\ core m
         | None => k = KSimple
         end /\ all t
     end) states.

(* ---- whole histories ---- *)
(* start() and stop() of the outermost machine *)
(* `obs`: the active ids the outermost machine's own entry behaviour reads from its fsm argument.  start() places the
   regions on their initial states; back / back11 do that before the entry behaviour runs, backmp11 after it, so a
   machine that is started again reports the ids it was stopped in (`stale`) - the one observation of a start() on
   which the engines differ.  On a fresh object both are the initial states. *)
Definition sp_start_obs (obs:list nat) (mc:machine) (c:conf) : sres :=
  let ev := Evt EV_INIT 0 in
  let c0 := c_set_act c (m_inits mc) in
  let '(items, c1) := sp_enter mc ev c0 in (items ++ [Cb KMEntry [] 0 ev false obs], c1).
Definition sp_start (mc:machine) (c:conf) : sres := sp_start_obs (m_inits mc) mc c.
Definition sp_stop (mc:machine) (c:conf) : sres :=
  let ev := Evt EV_EXIT 0 in
  let '(items, c1) := sp_exit mc ev c in (Cb KMExit [] 0 ev false (c_act c1) :: items, sp_post_exit mc c1).

(* the reported configuration: the active ids of the machine and, recursively, of every active submachine *)
Fixpoint sp_snapshot (mc:machine) {struct mc} : conf -> list nat -> list (list nat * list nat) :=
  let kidsf := map (fun st => match s_sub st with Some c => Some (sp_snapshot c) | None => None end) (m_states mc) in
  fun c path =>
    (path, c_act c) ::
    flat_map (fun s => match nth s kidsf None, nth s (c_kids c) None with
                       | Some f, Some k => f k (path ++ [s])
                       | _, _ => []
                       end) (c_act c).

(* operations whose behaviours only observe *)
Definition plain_op (o:op) : Prop :=
  match o with
  | OStart _ [] => True
  | OStop [] => True
  | OProcess e _ [] => e_ty e <> EV_NONE
  | _ => False
  end.

(* what one operation does: behaviour invocations in order of occurrence, the outcome (for process_event), the new
   configuration *)
Definition sp_op_gen (stale:bool) (pol:nat) (mc:machine) (o:op) (c:conf) : list titem * option (bool * bool) * conf :=
  match o with
  | OStart _ _ => let '(i, c') := sp_start_obs (if stale then c_act c else m_inits mc) mc c in (rev i, None, c')
  | OStop _ => let '(i, c') := sp_stop mc c in (rev i, None, c')
  | OProcess e val _ => let r := sp_process pol mc e val c in (rev (o_items r), Some (o_taken r, o_rejected r), o_conf r)
  | _ => ([], None, c)
  end.
Definition sp_op := sp_op_gen false.

(* every history *)
Fixpoint sp_run (stale:bool) (pol:nat) (mc:machine) (c:conf) (l:list op) : list (list titem * option (bool * bool) * list (list nat * list nat)) :=
  match l with
  | [] => []
  | o :: t => let '(items, out, c') := sp_op_gen stale pol mc o c in (items, out, sp_snapshot mc c' []) :: sp_run stale pol mc c' t
  end.

(* ---- the same fragment and operation classes as booleans, for the direct comparison of this specification with the
        library (harness/model_main.ml, mode spec): coreb is proved to imply core (Lemmas_Core.coreb_core) ---- *)
Definition trig_plainb (x:row) : bool := match r_trig x with TrEv e => negb (Nat.eqb e EV_NONE) | _ => false end.
Definition act_plainb (x:row) : bool := match r_act x with ActDefer => false | _ => true end.
Definition noexitb (x:row) : bool := match r_exitpt x with None => true | Some _ => false end.
Definition core_rowb (x:row) : bool :=
  trig_plainb x && act_plainb x && noexitb x && match r_tgt x with TgNone => true | TgState _ => true | _ => false end.
Definition core_irowb (x:row) : bool :=
  trig_plainb x && act_plainb x && noexitb x && match r_tgt x with TgNone => true | _ => false end.
Fixpoint coreb (mc:machine) {struct mc} : bool :=
  let 'Machine states inits rows irows hist := mc in
  forallb core_rowb rows && forallb core_irowb irows &&
  (fix all (l:list state) : bool :=
     match l with
     | [] => true
     | State k sub sirows defers _ _ :: t =>
         match defers with [] => true | _ => false end && forallb core_irowb sirows &&
         match sub, k with
         | Some m, KSub => coreb m
         | None, KSimple => true
         | _, _ => false
         end && all t
     end) states.
Definition plain_opb (o:op) : bool :=
  match o with
  | OStart _ [] => true
  | OStop [] => true
  | OProcess e _ [] => negb (Nat.eqb (e_ty e) EV_NONE)
  | _ => false
  end.

Definition qstate := (conf * list evt)%type.
Definition sp_qop (pol:nat) (mc:machine) (o:op) (st:qstate) : list titem * option (bool * bool) * qstate :=
  let '(c, pend) := st in
  match o with
  | OStart val _ => let '(i0, c0) := sp_start mc c in
                    let '(i, c') := sp_drain pol mc val pend c0 in (rev (i ++ i0), None, (c', []))
  | OStop _ => let '(i, c') := sp_stop mc c in (rev i, None, (c', pend))
  | OProcess e val _ => let o := sp_process pol mc e val c in
                        let '(i, c') := sp_drain pol mc val pend (o_conf o) in
                        (rev (i ++ o_items o), Some (o_taken o, o_rejected o), (c', []))
  | OEnqueue e => ([], None, (c, pend ++ [e]))
  | ODrain val _ => let '(i, c') := sp_drain pol mc val pend c in (rev i, None, (c', []))
  | ODrain1 val _ => match pend with
                     | [] => ([], None, st)
                     | e :: t => let o := sp_process pol mc e val c in (rev (o_items o), None, (o_conf o, t))
                     end
  | _ => ([], None, st)
  end.
Fixpoint sp_qrun (pol:nat) (mc:machine) (st:qstate) (l:list op) : list (list titem * option (bool * bool) * list (list nat * list nat)) :=
  match l with
  | [] => []
  | o :: t => let '(items, out, st') := sp_qop pol mc o st in (items, out, sp_snapshot mc (fst st') []) :: sp_qrun pol mc st' t
  end.

(* backmp11: start() of a machine without history of its own empties the pool (the stored occurrences are dropped, not
   dispatched), and its entry behaviour reads the ids the machine was stopped in; everything else as above *)
Definition sp_qop_mp11 (pol:nat) (mc:machine) (o:op) (st:qstate) : list titem * option (bool * bool) * qstate :=
  let '(c, pend) := st in
  match o with
  | OStart _ _ => let '(i, c') := sp_start_obs (c_act c) mc c in (rev i, None, (c', []))
  | OStop _ => let '(i, c') := sp_stop mc c in (rev i, None, (c', pend))
  | OProcess e val _ => let o := sp_process pol mc e val c in
                        let '(i, c') := sp_drain pol mc val pend (o_conf o) in
                        (rev (i ++ o_items o), Some (o_taken o, o_rejected o), (c', []))
  | OEnqueue e => ([], None, (c, pend ++ [e]))
  | ODrain val _ => let '(i, c') := sp_drain pol mc val pend c in (rev i, None, (c', []))
  | ODrain1 val _ => match pend with
                     | [] => ([], None, st)
                     | e :: t => let o := sp_process pol mc e val c in (rev (o_items o), None, (o_conf o, t))
                     end
  | _ => ([], None, st)
  end.
Fixpoint sp_qrun_mp11 (pol:nat) (mc:machine) (st:qstate) (l:list op) : list (list titem * option (bool * bool) * list (list nat * list nat)) :=
  match l with
  | [] => []
  | o :: t => let '(items, out, st') := sp_qop_mp11 pol mc o st in (items, out, sp_snapshot mc (fst st') []) :: sp_qrun_mp11 pol mc st' t
  end.
(* histories backmp11 is specified on: start() and stop() alternate, events are sent and the pool is processed while started *)
Fixpoint qbracketed (started:bool) (l:list op) : Prop :=
  match l with
  | [] => True
  | o :: t =>
      match o, started with
      | OStart _ [], false => qbracketed true t
      | OStop [], true => qbracketed false t
      | OProcess e _ [], true => e_ty e <> EV_NONE /\ qbracketed true t
      | OEnqueue e, _ => e_ty e <> EV_NONE /\ qbracketed started t
      | ODrain _ [], true => qbracketed true t
      | ODrain1 _ [], true => qbracketed true t
      | _, _ => False
      end
  end.
Fixpoint qbracketedb (started:bool) (l:list op) : bool :=
  match l with
  | [] => true
  | o :: t =>
      match o, started with
      | OStart _ [], false => qbracketedb true t
      | OStop [], true => qbracketedb false t
      | OProcess e _ [], true => negb (Nat.eqb (e_ty e) EV_NONE) && qbracketedb true t
      | OEnqueue e, _ => negb (Nat.eqb (e_ty e) EV_NONE) && qbracketedb started t
      | ODrain _ [], true => qbracketedb true t
      | ODrain1 _ [], true => qbracketedb true t
      | _, _ => false
      end
  end.

(* the state (configuration, pending list) a history ends in *)
Fixpoint sp_qfinal (pol:nat) (mc:machine) (st:qstate) (l:list op) : qstate :=
  match l with [] => st | o :: t => sp_qfinal pol mc (snd (sp_qop pol mc o st)) t end.
Fixpoint sp_qfinal_mp11 (pol:nat) (mc:machine) (st:qstate) (l:list op) : qstate :=
  match l with [] => st | o :: t => sp_qfinal_mp11 pol mc (snd (sp_qop_mp11 pol mc o st)) t end.

Definition qplain_op (o:op) : Prop :=
  match o with
  | OStart _ [] => True
  | OStop [] => True
  | OProcess e _ [] => e_ty e <> EV_NONE
  | OEnqueue e => e_ty e <> EV_NONE
  | ODrain _ [] => True
  | ODrain1 _ [] => True
  | _ => False
  end.
Fixpoint count_enq (l:list op) : nat :=
  match l with [] => 0 | OEnqueue _ :: t => S (count_enq t) | _ :: t => count_enq t end.

Definition qplain_opb (o:op) : bool :=
  match o with
  | OStart _ [] => true
  | OStop [] => true
  | OProcess e _ [] => negb (Nat.eqb (e_ty e) EV_NONE)
  | OEnqueue e => negb (Nat.eqb (e_ty e) EV_NONE)
  | ODrain _ [] => true
  | ODrain1 _ [] => true
  | _ => false
  end.
Definition spec_qtrace (pol:nat) (mc:machine) (l:list op) := sp_qrun pol mc (abs (init_rnode mc), []) l.
Definition spec_qtrace_mp11 (pol:nat) (mc:machine) (l:list op) := sp_qrun_mp11 pol mc (abs (init_rnode mc), []) l.

(* the specification's trace of a history on a fresh object *)
Definition spec_trace (stale:bool) (pol:nat) (mc:machine) (l:list op) :=
  sp_run stale pol mc (abs (init_rnode mc)) l.
