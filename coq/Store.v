(* Store.v - backmp11's basic_polymorphic (small-object / heap storage of pooled events) as an abstract object
   ledger: every event copy the library creates gets a fresh identity, every destructor call is recorded.
   The operations are those of basic_polymorphic_base: construct from a value, copy construct, copy assign,
   move construct, move assign, destroy.  Whether a type lives in the inline buffer follows the IsInline rule. *)
From Msm Require Import Base.

(* event type description: size, alignment, is the move constructor noexcept, is the type trivially copyable *)
Record ety := Ety { t_size : nat; t_align : nat; t_nothrow_move : bool; t_trivial : bool }.

Definition buffer_size := 56.       (* 64 - sizeof(control_block* ) *)
Definition buffer_align := 8.       (* alignof(void* ) *)
Definition is_inline (t:ety) : bool :=
  Nat.leb (t_size t) buffer_size && Nat.leb (t_align t) buffer_align && t_nothrow_move t.

(* a cell = one basic_polymorphic object.  An inline cell always holds an object (possibly moved-from);
   a heap cell holds a pointer that is null after it was moved from. *)
Inductive cell :=
| CEmpty                                        (* default constructed *)
| CInline (t:ety) (obj:nat) (val:nat)           (* object identity, value *)
| CHeap (t:ety) (ptr:option (nat * nat)).       (* Some (identity, value) or null *)

Record store := Store { cells : list cell; next_id : nat; born : list nat; dead : list nat }.

Inductive sop :=
| SMake (i:nat) (t:ety) (v:nat)        (* cells[i] = basic_polymorphic::make<T>(v)  (cell i must be destroyed/empty) *)
| SCopyCtor (i j:nat)                  (* new (cells[i]) basic_polymorphic(cells[j]) *)
| SCopyAssign (i j:nat)                (* cells[i] = cells[j] *)
| SMoveCtor (i j:nat)                  (* new (cells[i]) basic_polymorphic(std::move(cells[j])) *)
| SMoveAssign (i j:nat)                (* cells[i] = std::move(cells[j]) *)
| SDestroy (i:nat).                    (* cells[i].~basic_polymorphic(); the slot becomes empty *)

Definition moved_from_value := 0.

Definition cell_ids (c:cell) : list nat :=
  match c with
  | CEmpty => []
  | CInline _ o _ => [o]
  | CHeap _ (Some (o, _)) => [o]
  | CHeap _ None => []
  end.
Definition live_ids (s:store) : list nat := flat_map cell_ids (cells s).

Definition get_cell (s:store) (i:nat) : cell := nth i (cells s) CEmpty.
Definition set_cell (s:store) (i:nat) (c:cell) : store := Store (upd (cells s) i c) (next_id s) (born s) (dead s).
Definition fresh (s:store) : nat * store :=
  (next_id s, Store (cells s) (S (next_id s)) (next_id s :: born s) (dead s)).
Definition kill (s:store) (ids:list nat) : store := Store (cells s) (next_id s) (born s) (ids ++ dead s).

(* destroy(): run the destructor of what the cell holds *)
Definition destroy_cell (s:store) (i:nat) : store :=
  set_cell (kill s (cell_ids (get_cell s i))) i CEmpty.

(* copy src into the (empty) cell i: a new object is created by the copy constructor (or memcpy) *)
Definition copy_into (s:store) (i:nat) (src:cell) : store :=
  match src with
  | CEmpty => set_cell s i CEmpty
  | CInline t _ v => let '(o, s1) := fresh s in set_cell s1 i (CInline t o v)
  | CHeap t (Some (_, v)) => let '(o, s1) := fresh s in set_cell s1 i (CHeap t (Some (o, v)))
  | CHeap t None => set_cell s i (CHeap t None)      (* the real code dereferences null here: excluded by wf_op *)
  end.

(* move src (cell j) into the (empty) cell i *)
Definition move_into (s:store) (i j:nat) : store :=
  match get_cell s j with
  | CEmpty => set_cell s i CEmpty
  | CInline t o v =>
      (* inline: move-construct a new object (memcpy for trivially movable types); the source object stays alive *)
      let '(o', s1) := fresh s in
      set_cell (set_cell s1 i (CInline t o' v)) j (CInline t o (if t_trivial t then v else moved_from_value))
  | CHeap t p => set_cell (set_cell s i (CHeap t p)) j (CHeap t None)     (* pointer stolen *)
  end.

Definition sstep (s:store) (o:sop) : store :=
  match o with
  | SMake i t v =>
      let '(o', s1) := fresh s in
      set_cell s1 i (if is_inline t then CInline t o' v else CHeap t (Some (o', v)))
  | SCopyCtor i j => copy_into s i (get_cell s j)
  | SCopyAssign i j => if Nat.eqb i j then s else let src := get_cell s j in copy_into (destroy_cell s i) i src
  | SMoveCtor i j => move_into s i j
  | SMoveAssign i j => if Nat.eqb i j then s else move_into (destroy_cell s i) i j
  | SDestroy i => destroy_cell s i
  end.

(* operations within the library's own use of the type: construct only into an empty slot; never copy from a
   moved-from heap object or from a default-constructed (empty) one - the pool never holds such elements (copying
   an empty basic_polymorphic calls a null function pointer in the real code) *)
Definition is_empty_cell (c:cell) : bool := match c with CEmpty => true | _ => false end.
Definition wf_op (s:store) (o:sop) : bool :=
  match o with
  | SMake i _ _ => Nat.ltb i (length (cells s)) && is_empty_cell (get_cell s i)
  | SCopyCtor i j =>
      Nat.ltb i (length (cells s)) && Nat.ltb j (length (cells s)) && negb (Nat.eqb i j) && is_empty_cell (get_cell s i)
      && match get_cell s j with CHeap _ None => false | CEmpty => false | _ => true end
  | SMoveCtor i j =>
      Nat.ltb i (length (cells s)) && Nat.ltb j (length (cells s)) && negb (Nat.eqb i j) && is_empty_cell (get_cell s i)
      && match get_cell s j with CHeap _ None => false | _ => true end
  | SCopyAssign i j =>
      Nat.ltb i (length (cells s)) && Nat.ltb j (length (cells s))
      && match get_cell s j with CHeap _ None => Nat.eqb i j | CEmpty => Nat.eqb i j | _ => true end
  | SMoveAssign i j =>
      Nat.ltb i (length (cells s)) && Nat.ltb j (length (cells s))
      && match get_cell s j with CHeap _ None => Nat.eqb i j | _ => true end
  | SDestroy i => Nat.ltb i (length (cells s))
  end.

Fixpoint srun (s:store) (l:list sop) : store :=
  match l with
  | [] => s
  | o :: t => if wf_op s o then srun (sstep s o) t else srun s t
  end.

Definition init_store (n:nat) : store := Store (repeat CEmpty n) 0 [] [].

(* destroy every slot (what the container's destructor / clear() does) *)
Definition destroy_all (s:store) : store := fold_left destroy_cell (seqn 0 (length (cells s))) s.

(* value held by a cell (what a dispatched event would carry) *)
Definition cell_value (c:cell) : option nat :=
  match c with CInline _ _ v => Some v | CHeap _ (Some (_, v)) => Some v | _ => None end.
