(* Syntax.v - machine definitions as data, configurations, runtime tree, traces.
   State ids are the ids the library assigns (position in the machine's state list). *)
From Msm Require Export Base.

(* reserved event types *)
Definition EV_NONE := 0.   (* completion event (front::none) *)
Definition EV_INIT := 1.   (* InitEvent / starting *)
Definition EV_EXIT := 2.   (* ExitEvent / stopping *)
Definition EV_ANY  := 3.   (* an event object of a Kleene type itself; never sent by the harness *)
Definition EV_FIRST_USER := 4.

Record evt := Evt { e_ty : nat; e_pay : nat }.

Inductive trigger := TrEv (e:nat) | TrAny | TrNone.
Inductive target :=
| TgNone                                  (* internal transition *)
| TgState (s:nat)                         (* ordinary target (simple state, pseudo state or submachine) *)
| TgDirect (s:nat) (subs:list nat)        (* submachine s entered explicitly at the named substates (1 = direct<>, n = fork) *)
| TgEntryPt (s:nat) (p:nat).              (* submachine s entered through entry pseudo state p *)
Inductive raction := ActNone | ActCall | ActDefer.

(* r_id is unique in the whole definition; it names the guard and the action callback of the row *)
Record row := Row { r_id : nat; r_src : nat; r_trig : trigger; r_tgt : target;
                    r_guard : bool; r_act : raction; r_exitpt : option nat }.

Inductive hpolicy := HNone | HAlways | HShallow (evs:list nat).
Inductive skind := KSimple | KTerm | KIntr (ends:list nat) | KEntryPt | KExitPt (e:nat) | KSub.

Inductive machine :=
  Machine (states : list state) (inits : list nat) (rows : list row) (irows : list row) (hist : hpolicy)
with state :=
  State (kind : skind) (sub : option machine) (sirows : list row) (defers : list nat) (flags : list nat) (zone : nat).

Definition m_states m := let 'Machine s _ _ _ _ := m in s.
Definition m_inits m := let 'Machine _ i _ _ _ := m in i.
Definition m_rows m := let 'Machine _ _ r _ _ := m in r.
Definition m_irows m := let 'Machine _ _ _ i _ := m in i.
Definition m_hist m := let 'Machine _ _ _ _ h := m in h.
Definition s_kind s := let 'State k _ _ _ _ _ := s in k.
Definition s_sub s := let 'State _ c _ _ _ _ := s in c.
Definition s_irows s := let 'State _ _ i _ _ _ := s in i.
Definition s_defers s := let 'State _ _ _ d _ _ := s in d.
Definition s_flags s := let 'State _ _ _ _ f _ := s in f.
Definition s_zone s := let 'State _ _ _ _ _ z := s in z.
Definition m_nreg m := length (m_inits m).

Definition dummy_state := State KSimple None [] [] [] 0.
Definition get_state (mc:machine) (s:nat) : state := nth s (m_states mc) dummy_state.

(* event type hierarchy: parents[e] = direct public base of event type e *)
Record mdef := MDef { md_root : machine; md_parents : list (option nat) }.

Inductive backend := Back | Back11 | Mp11.
(* c_pol : 0 after_entry (default), 1 after_transition_action, 2 after_exit, 3 before_transition *)
Record cfg := Cfg { c_be : backend; c_fct : bool; c_pol : nat; c_qbefore : bool }.

(* ---- runtime ---- *)
(* queue items. back message queue: QEv e src _ _ ; back deferred queue: QEv e src seq _ ;
   backmp11 pool: QEv e _ seq marked (deferred_event) and QCompl state region marked *)
Inductive qitem := QEv (e:evt) (src:nat) (seq:Z) (mk:bool) | QCompl (s:nat) (r:nat) (mk:bool).

Inductive rnode :=
  RN (act : list nat) (kids : list (option rnode)) (hist : list nat)
     (msgq : list qitem) (defq : list qitem) (curseq : Z) (processing running : bool).

Definition act n := let 'RN a _ _ _ _ _ _ _ := n in a.
Definition kids n := let 'RN _ k _ _ _ _ _ _ := n in k.
Definition hist n := let 'RN _ _ h _ _ _ _ _ := n in h.
Definition msgq n := let 'RN _ _ _ q _ _ _ _ := n in q.
Definition defq n := let 'RN _ _ _ _ d _ _ _ := n in d.
Definition curseq n := let 'RN _ _ _ _ _ c _ _ := n in c.
Definition processing n := let 'RN _ _ _ _ _ _ p _ := n in p.
Definition running n := let 'RN _ _ _ _ _ _ _ r := n in r.
Definition set_act n a := let 'RN _ k h q d c p r := n in RN a k h q d c p r.
Definition set_kids n k := let 'RN a _ h q d c p r := n in RN a k h q d c p r.
Definition set_hist n h := let 'RN a k _ q d c p r := n in RN a k h q d c p r.
Definition set_msgq n q := let 'RN a k h _ d c p r := n in RN a k h q d c p r.
Definition set_defq n d := let 'RN a k h q _ c p r := n in RN a k h q d c p r.
Definition set_curseq n c := let 'RN a k h q d _ p r := n in RN a k h q d c p r.
Definition set_processing n p := let 'RN a k h q d c _ r := n in RN a k h q d c p r.
Definition set_running n r := let 'RN a k h q d c p _ := n in RN a k h q d c p r.

(* initial runtime tree: every state that is a submachine has a child node from construction on *)
Fixpoint init_rnode (mc:machine) : rnode :=
  RN (m_inits mc)
     (map (fun st => match s_sub st with Some c => Some (init_rnode c) | None => None end) (m_states mc))
     (m_inits mc) [] [] 0%Z false false.

(* ---- traces ---- *)
Inductive cbkind := KGuard (res:bool) | KAction | KEntry | KExit | KMEntry | KMExit | KNoTrans | KExc.
(* Cb kind path id event wrapped obs : path = machine (list of state ids from the root) whose fsm argument
   the behaviour received; id = row id (guard/action) or state id (entry/exit/no_transition), 0 otherwise;
   wrapped = the event argument was a direct_entry_event wrapper; obs = active state ids the fsm argument reported *)
Inductive titem :=
| Cb (k:cbkind) (path:list nat) (id:nat) (ev:evt) (wrapped:bool) (obs:list nat)
| Res (code:nat)
| Escaped              (* an exception left the operation *)
| Bad (what:nat).    (* 1 = re-entrant processing (not modelled), 2 = out of fuel, 3 = unsupported shape *)

Inductive cmd := CThrow | CProc (e:evt) | CEnq (e:evt).

Inductive op :=
| OStart (val:list nat) (plan:list (nat * cmd))
| OStop (plan:list (nat * cmd))
| OProcess (e:evt) (val:list nat) (plan:list (nat * cmd))
| OEnqueue (e:evt)
| ODrain (val:list nat) (plan:list (nat * cmd))
| ODrain1 (val:list nat) (plan:list (nat * cmd))
| OReset                  (* destroy the machine object and construct a fresh one *)
| OOn (k:nat) (o:op)      (* the operation applied to machine object k (object 0 is the default) *)
| OCopy (dst src:nat)     (* object dst := new machine copy-constructed from (const) object src *)
| OAssign (dst src:nat)   (* object dst = object src (copy assignment; dst exists) *)
| OMove (dst src:nat)     (* backmp11: object dst := machine move-constructed from object src *)
| OSaveLoad (dst src:nat). (* back / back11: object dst := fresh machine loaded from an archive of object src *)
