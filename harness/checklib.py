"""checklib.py - what one `./check Cxx` does: regenerate Generated.v, re-check the property's theorems,
run pinned replays and the correspondence for the property's machines, evaluate the property's monitors on
the implementation's traces, form the verdict, write the evidence file."""
import json, os, random, re, subprocess, sys, time, hashlib, collections
from concurrent.futures import ThreadPoolExecutor

HERE = os.path.dirname(os.path.abspath(__file__))
VERIF = os.path.dirname(HERE)
sys.path.insert(0, HERE)
sys.path.insert(0, os.path.join(VERIF, "tools"))
import msmgen, corr, gen, monitors
import regen as regen_mod

COQ = os.path.join(VERIF, "coq")
ALL_CFGS = ["back", "back_fct", "back11", "mp11", "mp11_fpa", "mp11_fct"]

def sh(cmd, timeout=1200, cwd=None):
    r = subprocess.run(cmd, capture_output=True, text=True, timeout=timeout, cwd=cwd)
    return r.returncode, r.stdout + r.stderr

# ------------------------------------------------------------------------------------------------
# proofs
FORBIDDEN = re.compile(r"\b(Admitted|admit|Axiom|Parameter|Conjecture|Hypothesis|Variable)\b|Unset Guard|bypass_check|Admit Obligations")

def scan_forbidden():
    """declarations that would add an axiom; Variable / Hypothesis are allowed only inside sections"""
    bad = []
    for f in sorted(os.listdir(COQ)):
        if not f.endswith(".v"):
            continue
        depth = 0
        for n, line in enumerate(open(os.path.join(COQ, f)), 1):
            code = re.sub(r"\(\*.*?\*\)", "", line)
            if re.match(r"\s*Section\b", code):
                depth += 1
            if re.match(r"\s*End\b", code) and depth > 0:
                depth -= 1
            m = FORBIDDEN.search(code)
            if m:
                w = m.group(0)
                if w in ("Variable", "Hypothesis") and depth > 0:
                    continue
                bad.append("%s:%d: %s" % (f, n, line.strip()))
    return bad

def run_coqchk(prop):
    """thorough tier: re-check the compiled property file and everything it depends on with the independent checker"""
    rc, out = sh(["coqchk", "-o", "-silent", "-Q", ".", "Msm", "Msm.Properties_%s" % prop], cwd=COQ, timeout=3000)
    m = re.search(r"\* Axioms:\s*(.*?)\n\s*\n", out, re.S)
    axioms = " ".join(m.group(1).split()) if m else "?"
    return {"rc": rc, "axioms": axioms,
            "cmd": "coqchk -o -silent -Q coq Msm Msm.Properties_%s" % prop,
            "ok": rc == 0 and axioms == "<none>"}

def build_proofs(prop, log):
    """returns dict(regen_ok, obligations=[names], discharged=[names], axioms={name: text}, errors=[...], checker_cmd)"""
    res = {"obligations": [], "discharged": [], "axioms": {}, "errors": [], "regen_ok": True,
           "checker_cmd": "python3 tools/regen.py && make -C coq (coq_makefile full .vo build) && coqc -Q coq Msm coq/Properties_%s.v" % prop}
    rc = regen_mod.main()
    if rc != 0:
        res["regen_ok"] = False
        res["errors"].append("tools/regen.py could not regenerate coq/Generated.v from /repo's headers")
    pf = os.path.join(COQ, "Properties_%s.v" % prop)
    text = open(pf).read()
    res["obligations"] = re.findall(r"^Theorem\s+(\w+)", text, re.M)
    bad = scan_forbidden()
    if bad:
        res["errors"].append("forbidden declarations: " + "; ".join(bad[:5]))
    # full build of everything the property file depends on (and the extraction), then the file itself
    rc, out = sh(["make", "-C", VERIF, "model"], timeout=1500)
    log.append(out[-3000:])
    if rc != 0:
        res["errors"].append("the executable model does not build: " + out[-1500:])
    rc, out = sh(["make", "-C", VERIF, "proofs"], timeout=1500)
    log.append(out[-3000:])
    rc, out = sh(["coqc", "-Q", ".", "Msm", "Properties_%s.v" % prop], cwd=COQ, timeout=900)
    if rc != 0:
        res["errors"].append("Properties_%s.v does not check: %s" % (prop, out[-1500:]))
        # which theorems still check is not known from a failed file: none is counted
        return res
    # Print Assumptions output, in file order
    blocks = re.findall(r"(Closed under the global context|Axioms:\n(?:.+\n?)+?(?=\n|$))", out)
    pa = re.findall(r"^Print Assumptions\s+(\w+)", text, re.M)
    for name, blk in zip(pa, blocks):
        res["axioms"][name] = blk.strip()
    for name in res["obligations"]:
        if name in res["axioms"]:
            res["discharged"].append(name)
        else:
            res["errors"].append("theorem %s has no Print Assumptions result" % name)
    return res

# ------------------------------------------------------------------------------------------------
# correspondence
SIX_CFGS = ["back", "back_fct", "back11", "mp11", "mp11_fpa", "mp11_fct"]

def machines_for(profile, seed, n):
    """deterministic machine set of a profile; machines are shared by all properties using the profile"""
    feat = gen.PROFILES[profile]
    out = []
    for i in range(n):
        rng = random.Random("%s/%d/%d" % (profile, seed, i))
        g = gen.Gen(rng, feat)
        out.append(("%s-%d-%d" % (profile, seed, i), g, g.gen_mdef()))
    return out

def corpus_for(names):
    out = []
    for nm in names:
        p = os.path.join(VERIF, "corpus", nm + ".json")
        d = json.load(open(p))
        out.append((nm, None, d["md"], [[tuple(o) for o in ops] for ops in d.get("ops", [])], d.get("features", {})))
    return out

def load_replay(path):
    d = json.load(open(path))
    ops = []
    for o in d["ops"]:
        if o[0] == "repeat":          # ["repeat", n, op]: the same operation n times (long walks of a counter)
            ops += [tuple(normalize_op(o[2]))] * int(o[1])
        else:
            ops.append(tuple(normalize_op(o)))
    return d["md"], d["cfg"], ops

def normalize_op(o):
    o = list(o)
    # JSON turns tuples into lists: plans are lists of [idx, [cmd...]]
    def plan(p):
        return [(int(i), tuple(c)) for i, c in p]
    if o[0] == "start":
        return ("start", list(o[1]), plan(o[2]))
    if o[0] == "stop":
        return ("stop", plan(o[1]))
    if o[0] == "process":
        return ("process", o[1], o[2], list(o[3]), plan(o[4]))
    if o[0] == "enqueue":
        return ("enqueue", o[1], o[2])
    if o[0] == "reset":
        return ("reset",)
    if o[0] == "on":
        return ("on", o[1], normalize_op(o[2]))
    if o[0] in ("copy", "assign", "move", "saveload"):
        return (o[0], o[1], o[2])
    return (o[0], list(o[1]), plan(o[2]))

class Stats:
    def __init__(self):
        self.programs = 0
        self.traces = 0
        self.evaluations = 0
        self.nontrivial = set()
        self.discarded = collections.Counter()
        self.dist = collections.Counter()
        self.samples = []
        self.build_s = 0.0
        self.unsupported = 0

def run_cases(prop, spec, cases, stats, log):
    """cases: list of (name, md, cfg, [ops lists]); returns (mismatches, violations)"""
    jobs = []
    for (n, md, c, opss) in cases:
        md2 = msmgen.adapt(md, c)
        if md2 is None:
            stats.unsupported += 1
        else:
            if md2 is not md:
                stats.dist[("machine adapted to configuration (own internal tables dropped)",)] += 1
            jobs.append((n, md2, c, opss))
    def work(j):
        n, md, c, opss = j
        exe, dt, err = corr.build_binary(md, c, extra_flags=tuple(spec.get("extra_flags", ())))
        if exe is None:
            return (j, "BUILD", err, dt, [])
        outs = []
        if spec.get("check_ids"):
            bad_ids = corr.check_ids(md, exe, c)
            stats.dist[("id-maps-checked",)] += 1
            if bad_ids:
                outs.append(("IDS", [], bad_ids[0], None))
        for ops in opss:
            ops = msmgen.adapt_ops(ops, c)
            try:
                r = corr.compare(md, c, ops, exe)
            except Exception as e:
                outs.append(("EXC", ops, repr(e), None))
                continue
            outs.append(("BAD" if r["bad"] else ("OK" if r["ok"] else "DIFF"), ops, r.get("first_diff"), r))
        return (j, "RUN", None, dt, outs)
    with ThreadPoolExecutor(int(os.environ.get("VERIF_JOBS", "14"))) as ex:
        results = list(ex.map(work, jobs))
    mismatches, violations = [], []
    cross = {}
    for (n, md, c, opss), st, err, dt, outs in results:
        if spec.get("cross_cfg") and st == "RUN":
            for idx, (kind, ops, info, r) in enumerate(outs):
                if kind in ("OK", "DIFF") and r and r.get("impl"):
                    cross.setdefault((n, idx), []).append((c, md, ops, [spec["cross_cfg"](monitors.canon_block(b, r["ids"])) for b in r["impl"]]))
    for (n, idx), lst in cross.items():
        c0, md0, ops0, p0 = lst[0]
        for c1, md1, ops1, p1 in lst[1:]:
            stats.dist[("configuration pairs compared",)] += 1
            if p1 != p0:
                k = next((i for i in range(max(len(p0), len(p1))) if i >= len(p0) or i >= len(p1) or p0[i] != p1[i]), 0)
                violations.append({"machine": n, "cfg": c1, "md": md1, "ops": ops1[:k + 1],
                                   "why": "observable behaviour differs between %s and %s at operation %d: %s vs %s"
                                          % (c0, c1, k, p0[k] if k < len(p0) else None, p1[k] if k < len(p1) else None)})
                break
    for (n, md, c, opss), st, err, dt, outs in results:
        stats.build_s += dt
        if st == "BUILD":
            mismatches.append({"machine": n, "cfg": c, "kind": "build", "detail": (err or "")[-1500:], "md": md, "ops": []})
            continue
        stats.programs += 1
        for kind, ops, info, r in outs:
            if kind == "IDS":
                violations.append({"machine": n, "cfg": c, "md": md, "ops": [], "why": info})
                continue
            if kind == "EXC":
                mismatches.append({"machine": n, "cfg": c, "kind": "exception", "detail": info, "md": md, "ops": ops})
                continue
            if kind == "BAD":
                stats.discarded["model-refused (re-entrant processing / fuel)"] += 1
                continue
            stats.traces += 1
            stats.evaluations += len(ops)
            # monitors on the implementation's own trace
            mv = spec["monitor"](r["root_lib"], c, ops, r["impl"], stats, r) if spec.get("monitor") else []
            for v in mv:
                violations.append({"machine": n, "cfg": c, "md": md, "ops": ops, "why": v})
            if kind == "DIFF":
                mismatches.append({"machine": n, "cfg": c, "kind": "trace", "detail": info, "md": md, "ops": ops})
            if len(stats.samples) < 3 and kind == "OK":
                stats.samples.append({"machine": n, "cfg": c, "ops": [list(o) for o in ops[:4]],
                                      "impl_trace_head": [b[:6] for b in r["impl"][:3]]})
    return mismatches, violations

def minimise(md, cfg, ops, still_fails):
    """delta-debug the operation list (keeps the first op, usually start); long lists (the counter walks of pinned
    replays) are only cut by halving from the end, and the whole search is bounded in time"""
    ops = list(ops)
    t_end = time.time() + 120
    while len(ops) > 400 and time.time() < t_end:
        half = ops[:max(1, len(ops) // 2)]
        try:
            if still_fails(md, cfg, half):
                ops = half
                continue
        except Exception:
            pass
        break
    if len(ops) > 400:
        return ops
    changed = True
    while changed and len(ops) > 1 and time.time() < t_end:
        changed = False
        for i in range(len(ops) - 1, 0, -1):
            cand = ops[:i] + ops[i + 1:]
            try:
                if still_fails(md, cfg, cand):
                    ops = cand
                    changed = True
            except Exception:
                pass
    return ops

def diff_fails(md, cfg, ops):
    r = corr.compare(md, cfg, ops)
    return (not r.get("bad")) and (not r["ok"])

# ------------------------------------------------------------------------------------------------
def known_findings():
    return json.load(open(os.path.join(VERIF, "known_findings.json")))["findings"]

def write_replay(prop, kind, payload):
    d = os.path.join(VERIF, "replays", "out")
    os.makedirs(d, exist_ok=True)
    h = hashlib.sha256(json.dumps(payload, sort_keys=True, default=str).encode()).hexdigest()[:10]
    p = os.path.join(d, "%s-%s-%s.json" % (prop, kind, h))
    json.dump(payload, open(p, "w"), indent=1, default=str)
    return p

def run_check(prop, spec, tier, replay=None):
    t0 = time.time()
    seed = int(os.environ.get("VERIF_SEED", "1"))
    log = []
    stats = Stats()
    out_lines = []
    if replay:
        raw = json.load(open(replay))
        if "proof_errors" in raw or "correspondence_mismatches" in raw:
            # a no-failing-input-found report: it names the theorems / correspondence cases that no longer check
            print(json.dumps({k: raw.get(k) for k in ("proof_errors", "undischarged")}, indent=1, default=str))
            print("this replay names broken obligations, not an input: run ./check %s --tier quick to re-check them" % prop)
            return 0
        if raw.get("cfg") == "puml":
            # a PlantUML line or whole description: the library's own functions against the transcription
            import pumlcheck, subprocess
            text = "".join(raw["ops"][0])
            exe, err = pumlcheck.build_probe()
            if exe is None:
                print(err); print("VIOLATION property=%s replay=%s" % (prop, replay)); return 1
            whole = ("\n" in text) or raw.get("machine") == "puml description"
            mode = ["stt"] if whole else []
            inp = (text.replace("\n", "\x1e") if whole else text) + "\n"
            a = subprocess.run([exe] + mode, input=inp, capture_output=True, text=True, timeout=120).stdout.split("\n")[0]
            b = subprocess.run([corr.MODEL, "stt" if whole else "puml"], input=inp, capture_output=True, text=True, timeout=120).stdout.split("\n")[0]
            if a.endswith("THROW"):
                a = "THROW"
            print(json.dumps({"text": text, "library": a, "transcription": b}, indent=1))
            if a != b and a != "THROW":
                print("VIOLATION property=%s replay=%s" % (prop, replay))
                return 1
            return 0
        if raw.get("cfg") == "store":
            # a history of basic_polymorphic operations: object ledger of the library (ASan / UBSan build) against the model
            import storecheck, subprocess
            exe, err = storecheck.build_probe()
            if exe is None:
                print(err); print("VIOLATION property=%s replay=%s" % (prop, replay)); return 1
            env = dict(os.environ, ASAN_OPTIONS="detect_leaks=1:abort_on_error=0", UBSAN_OPTIONS="print_stacktrace=1")
            types = subprocess.run([exe], input="TYPES\n", capture_output=True, text=True, env=env).stdout
            tlines = [l for l in types.splitlines() if l.startswith("TYPE ")]
            sops = ["".join(o) for o in raw["ops"]]
            model = subprocess.run([corr.MODEL, "store"], input="\n".join(tlines + sops) + "\n", capture_output=True, text=True, timeout=60).stdout.splitlines()
            ok_ops = [o for o, m in zip(sops, model) if m != "SKIP"]
            exp = [m for m in model if m != "SKIP"]
            rr = subprocess.run([exe], input="\n".join(ok_ops) + "\n", capture_output=True, text=True, env=env, timeout=60)
            got = rr.stdout.splitlines()
            end = got[-1] if got else ""
            bad = rr.returncode != 0 or "ERROR" in rr.stdout or "CORRUPT" in rr.stdout or "runtime error" in rr.stderr or \
                "AddressSanitizer" in rr.stderr or not end.startswith("END live 0 errors 0") or got[:-1] != exp
            print(json.dumps({"operations": len(ok_ops), "library_end": end, "agrees_with_model": got[:-1] == exp, "stderr": rr.stderr[-400:]}, indent=1))
            if bad:
                print("VIOLATION property=%s replay=%s" % (prop, replay))
                return 1
            return 0
        try:
            md, cfg, ops = load_replay(replay)
            if not isinstance(md, dict) or "root" not in md:
                raise ValueError("not an engine-level replay")
        except (ValueError, IndexError, KeyError, TypeError) as e:
            # e.g. a whole PlantUML machine or a front-end probe: these are generated deterministically from the seed and
            # the pinned lists, so the property's quick check re-runs them on the current tree
            print("replay %s is not an engine-level history (%s): running the quick check of %s, which contains it" % (replay, e, prop))
            return run_check(prop, spec, "quick", None)
        r = corr.compare(md, cfg, ops)
        print(json.dumps({"ok": r["ok"], "first_diff": r.get("first_diff")}, indent=1, default=str))
        mv = spec["monitor"](r["root_lib"], cfg, ops, r["impl"], stats, r) if spec.get("monitor") and r.get("impl") else []
        for v in mv:
            print("monitor:", v)
        if not r["ok"] or mv:
            print("VIOLATION property=%s replay=%s" % (prop, replay))
            return 1
        return 0
    proofs = build_proofs(prop, log)
    chk = None
    if tier == "thorough" and not proofs["errors"]:
        chk = run_coqchk(prop)
        if not chk["ok"]:
            proofs["errors"].append("coqchk: rc %s, axioms %s" % (chk["rc"], chk["axioms"]))
    # 1. pinned replays: known findings (must still fail the monitor / be reported) and fixed ones (must pass)
    known_lines, violations, mismatches = [], [], []
    for kf in known_findings():
        if prop not in kf["properties"] or not kf.get("replay"):
            continue
        md, cfg, ops = load_replay(os.path.join(VERIF, kf["replay"]))
        if kf.get("expect") == "cross-differs":
            raw = json.load(open(os.path.join(VERIF, kf["replay"])))
            projs, okmodel = [], True
            for cx in raw["cross"]:
                rx = corr.compare(md, cx, ops)
                okmodel = okmodel and (rx.get("bad") or rx["ok"])
                projs.append([spec["cross_cfg"](monitors.canon_block(b, rx["ids"])) for b in rx.get("impl", [])] if spec.get("cross_cfg") and rx.get("ids") else rx.get("impl"))
            stats.traces += len(raw["cross"])
            if projs[0] != projs[1]:
                known_lines.append("KNOWN-FINDING: property=%s %s (%s)" % (prop, kf["what"], kf["id"]))
            if not okmodel:
                mismatches.append({"machine": kf["id"], "cfg": "/".join(raw["cross"]), "kind": "trace", "detail": "model and implementation disagree on the pinned replay", "md": md, "ops": ops})
            continue
        r = corr.compare(md, cfg, ops)
        if kf["kind"] == "known":
            # the defect is still in the tree: show it on the implementation's own trace
            exe, _, _ = corr.build_binary(md, cfg)
            raw, _ = corr.run_impl(exe, ops)
            blocks = corr.split_ops(raw)
            rr = {"impl": blocks, "impl_raw": corr.split_ops(raw, True), "root_lib": msmgen.renumber(md["root"], corr.read_ids(exe))}
            mv = spec["monitor"](rr["root_lib"], cfg, ops, blocks, stats, rr) if spec.get("monitor") else []
            agrees = r.get("bad") or r["ok"]
            sig = kf.get("signature")
            sig_seen = True
            if sig:
                blk = blocks[sig["op_index"]] if sig["op_index"] < len(blocks) else []
                text = "\n".join(blk) + "\n"
                if "contains" in sig:
                    sig_seen = sig["contains"] in text
                if "absent" in sig:
                    sig_seen = sig_seen and (sig["absent"] not in text.replace("\n", " \n"))
            if mv or (kf.get("expect") == "model-agrees" and sig_seen):
                known_lines.append("KNOWN-FINDING: property=%s %s (%s)" % (prop, kf["what"], kf["id"]))
            if not agrees:
                mismatches.append({"machine": kf["id"], "cfg": cfg, "kind": "trace", "detail": r.get("first_diff"), "md": md, "ops": ops})
        else:
            mv = spec["monitor"](r["root_lib"], cfg, ops, r["impl"], stats, r) if spec.get("monitor") and r.get("impl") else []
            if not r["ok"]:
                mismatches.append({"machine": kf["id"] + " (fixed defect returned)", "cfg": cfg, "kind": "trace",
                                   "detail": r.get("first_diff"), "md": md, "ops": ops})
            for v in mv:
                violations.append({"machine": kf["id"], "cfg": cfg, "md": md, "ops": ops, "why": v})
        stats.traces += 1
    # 2. corpus + seeded random machines (or the property's own runner)
    n = spec["n_quick"] if tier == "quick" else spec["n_thorough"]
    if spec.get("custom") == "puml":
        import pumlcheck, pumlmachines
        mm, vv = pumlcheck.run(seed, n, stats)
        # whole machines written as PlantUML text against the description they were printed from
        mm2, vv2 = pumlmachines.run(seed, 9 if tier == "quick" else 36, stats)
        mm += mm2; vv += vv2
    elif spec.get("custom") == "store":
        import storecheck
        mm, vv = storecheck.run(seed, n, stats)
        mm2, vv2 = storecheck.run_machines(seed, 1 if tier == "quick" else 10, stats)
        mm += mm2; vv += vv2
    if spec.get("custom") is None or spec.get("machines"):
        mm, vv = (mm, vv) if spec.get("custom") else ([], [])
        nops = spec.get("nops", 14)
        cases = []
        if spec.get("custom"):
            n = spec["n_machines_quick"] if tier == "quick" else spec["n_machines_thorough"]
        for name, g, md in machines_for(spec["profile"], seed, n):
            opss = [spec["ops"](g, md, nops) if spec.get("ops") else g.gen_ops(md, nops) for _ in range(spec.get("nlists", 3))]
            for c in spec["cfgs"]:
                cases.append((name, md, c, opss))
        for ex in spec.get("extra", []):
            prof, nq, nt = ex[:3]
            opsgen = ex[3] if len(ex) > 3 else "gen_ops"
            for name, g, md in machines_for(prof, seed, nq if tier == "quick" else nt):
                opss = [getattr(g, opsgen)(md, nops) for _ in range(2)]
                for c in spec.get("extra_cfgs", SIX_CFGS):
                    cases.append((name, md, c, opss))
        for nm in spec.get("corpus", []):
            p = os.path.join(VERIF, "corpus", nm + ".json")
            d = json.load(open(p))
            for c in d.get("cfgs", spec["cfgs"]):
                cases.append((nm, d["md"], c, [[normalize_op(o) for o in ops] for ops in d["ops"]]))
        mm2, vv2 = run_cases(prop, spec, cases, stats, log)
        mm += mm2; vv += vv2
    mismatches += mm
    violations += vv
    # 3. verdict
    exit_code = 0
    known_ids = set()
    for ln in known_lines:
        out_lines.append(ln)
    # violations found by monitors that are not known findings
    new_viol = [v for v in violations if not monitors.is_known(prop, v, known_findings())]
    proof_broken = bool(proofs["errors"]) or len(proofs["discharged"]) != len(proofs["obligations"])
    if new_viol:
        v = new_viol[0]
        ops = v["ops"]
        path = write_replay(prop, "violation", {"property": prop, "cfg": v["cfg"], "md": v["md"], "ops": [list(o) for o in ops],
                                                "why": v["why"], "machine": v["machine"]})
        out_lines.append("VIOLATION property=%s replay=%s" % (prop, path))
        exit_code = 1
    elif mismatches or proof_broken:
        # the tie or a proof obligation broke: look for an input on which the property itself fails
        found = None
        t_search = time.time()
        tried = 0
        for m in mismatches:
            if m["kind"] != "trace":
                continue
            if tried >= 6 or time.time() - t_search > 400:
                break          # the search for a failing input is bounded; the violation is reported either way
            if m.get("md") is None:
                found = (m, m["ops"], {"first_diff": m["detail"]})
                break
            # only a disagreement on the part of the trace this property constrains counts; the history is minimised
            # with respect to that (not to any disagreement: the search would drift to an unrelated difference)
            def rel_fails(md_, cfg_, ops_):
                r_ = corr.compare(md_, cfg_, ops_)
                return (not r_.get("bad")) and (not r_["ok"]) and bool(spec["relevant"](r_.get("first_diff"), r_))
            try:
                if not rel_fails(m["md"], m["cfg"], m["ops"]):
                    continue
                tried += 1
                ops = minimise(m["md"], m["cfg"], m["ops"], rel_fails)
                r = corr.compare(m["md"], m["cfg"], ops)
            except Exception:
                continue
            if spec["relevant"](r.get("first_diff"), r):
                found = (m, ops, r)
                break
        if found:
            m, ops, r = found
            path = write_replay(prop, "violation", {"property": prop, "cfg": m["cfg"], "md": m["md"], "ops": [list(o) for o in ops],
                                                    "machine": m["machine"], "first_diff": r.get("first_diff"),
                                                    "why": "implementation and model disagree on the part of the trace this property constrains"})
            out_lines.append("VIOLATION property=%s replay=%s" % (prop, path))
        else:
            what = {"property": prop, "proof_errors": proofs["errors"],
                    "undischarged": [t for t in proofs["obligations"] if t not in proofs["discharged"]],
                    "correspondence_mismatches": [{k: (v if k not in ("md",) else "...") for k, v in m.items()} for m in mismatches[:3]]}
            path = write_replay(prop, "unchecked", what)
            out_lines.append("VIOLATION property=%s replay=%s no-failing-input-found" % (prop, path))
        exit_code = 1
    # 4. evidence
    trusted = [
        "Coq 8.16.1 kernel (coqc); vm_compute used in Examples/finite sweeps; no native_compute; no axioms declared",
        "Print Assumptions: " + "; ".join("%s: %s" % (k, v.replace("\n", " ")) for k, v in proofs["axioms"].items()),
        "tools/regen.py (probe-based translator for Generated.v)",
        "extraction (ExtrOcamlBasic only, no Extract Constant), OCaml 4.13.1, harness/model_main.ml",
        "harness/msmgen.py C++ generator + harness/rt.hpp runtime: a bug there can hide a mismatch",
        "modelled, not verified: the engine model in coq/{BackLevel,Mp11Level,Run}.v; tied to /repo by differential execution on the machines listed under programs",
    ]
    ev = {
        "property_id": prop, "tier": tier, "seed": seed, "level": "proof",
        "coverage": {
            "obligations": len(proofs["obligations"]), "discharged": len(proofs["discharged"]),
            "theorems": proofs["obligations"], "checker_cmd": proofs["checker_cmd"], "trusted_base": trusted,
            "programs": stats.programs, "traces_validated_against_impl": stats.traces,
            "evaluations": stats.evaluations, "distinct_nontrivial": len(stats.nontrivial),
            "rule": spec.get("rule", ""), "samples": stats.samples or [{"note": "no sample (nothing ran)"}],
            "distribution": {str(k): v for k, v in stats.dist.most_common(40)},
            "discarded": dict(stats.discarded), "unsupported_configurations_skipped": stats.unsupported,
            "configurations": spec["cfgs"], "profile": spec["profile"],
            "independent_checker": chk if chk else "coqchk runs in the thorough tier",
            "mismatches": len(mismatches), "known_findings_reported": known_lines,
            "build_seconds_total": round(stats.build_s, 1),
        },
        "assumptions": spec.get("assumptions", []),
        "wall_s": round(time.time() - t0, 1),
        "violations": len(new_viol) + (1 if exit_code and not new_viol else 0),
    }
    os.makedirs(os.path.join(VERIF, "evidence"), exist_ok=True)
    json.dump(ev, open(os.path.join(VERIF, "evidence", prop + ".json"), "w"), indent=1, default=str)
    for ln in out_lines:
        print(ln)
    print("%s: %s  obligations %d/%d  programs %d  traces %d  mismatches %d  wall %.0fs" % (
        prop, "FAIL" if exit_code else "ok", len(proofs["discharged"]), len(proofs["obligations"]),
        stats.programs, stats.traces, len(mismatches), time.time() - t0))
    return exit_code
