"""corr.py - build and run the implementation and the model on the same machine + operations; diff traces."""
import hashlib, os, subprocess, sys, tempfile, shutil, json, time
from concurrent.futures import ThreadPoolExecutor
import msmgen

VERIF = os.path.dirname(os.path.dirname(os.path.abspath(__file__)))
REPO = os.environ.get("MSM_REPO", "/repo")
CACHE = os.path.join(VERIF, ".cache")
HARNESS = os.path.join(VERIF, "harness")
MODEL = os.path.join(VERIF, "build", "model_main")
CXX = os.environ.get("CXX", "g++")
CXXFLAGS = ["-std=gnu++20", "-O0", "-w", "-DNDEBUG"]

_repo_hash = None
def repo_hash():
    """sha256 over every file under /repo/include/boost/msm (content + relative name)"""
    global _repo_hash
    if _repo_hash is None:
        h = hashlib.sha256()
        root = os.path.join(REPO, "include", "boost", "msm")
        for d, _, fs in sorted(os.walk(root)):
            for f in sorted(fs):
                p = os.path.join(d, f)
                h.update(os.path.relpath(p, root).encode())
                h.update(open(p, "rb").read())
        for f in ("rt.hpp", "prelude.hpp", "prelude2.hpp", "main.hpp"):
            h.update(open(os.path.join(HARNESS, f), "rb").read())
        h.update(" ".join(CXXFLAGS).encode())
        _repo_hash = h.hexdigest()[:20]
    return _repo_hash

def cfg_parts(cfgname):
    """cfgname: <base>[@<frontend>][:p<policy>] e.g. back, mp11_fct, back:p2, back@basic, mp11@row2:p1"""
    base, _, rest = cfgname.partition(":")
    base = base.partition("@")[0].replace("+circ", "")
    pol = int(rest[1:]) if rest.startswith("p") else 0
    be, fct, traits = msmgen.CFGS[base]
    return base, be, fct, traits, pol

def frontend_of(cfgname):
    fe = cfgname.partition(":")[0].partition("@")[2].replace("+circ", "")
    return fe or "functor"

def is_circ(cfgname):
    """<base>+circ: the message queue is a boost::circular_buffer of sufficient capacity (back / back11 only)"""
    return "+circ" in cfgname

def blank_obs(blocks):
    """row2 behaviours that are members of a state do not see the machine: the ids they would observe are not compared"""
    import re
    return [[re.sub(r" \[[^\]]*\]$", " [?]", l) if l[:2] in ("G0", "G1", "A ") else l for l in b] for b in blocks]

def build_binary(md, cfgname, extra_flags=()):
    """compile (or fetch from the cache) the harness binary of md under cfgname; returns (path, seconds, error)"""
    base, be, fct, traits, pol = cfg_parts(cfgname)
    src = msmgen.gen_cxx(md, policy=pol, introspect="-DH_INTROSPECT" in extra_flags, frontend=frontend_of(cfgname))
    key = hashlib.sha256((repo_hash() + cfgname + " ".join(extra_flags) + src).encode()).hexdigest()[:24]
    d = os.path.join(CACHE, repo_hash())
    os.makedirs(d, exist_ok=True)
    exe = os.path.join(d, key)
    if os.path.exists(exe):
        return exe, 0.0, None
    if os.path.exists(exe + ".err"):
        return None, 0.0, open(exe + ".err").read()
    tmpd = tempfile.mkdtemp(prefix="tmp.", dir=CACHE)
    try:
        cpp = os.path.join(tmpd, "case.cpp")
        open(cpp, "w").write(src)
        t0 = time.time()
        cmd = [CXX] + CXXFLAGS + list(extra_flags) + ["-I", os.path.join(REPO, "include"), "-I", HARNESS,
               "-DH_CFG=%s" % (traits + ("Circ" if is_circ(cfgname) else "")), "-DH_CFG_%s=1" % base, cpp, "-o", os.path.join(tmpd, "case")]
        if is_circ(cfgname):
            cmd.insert(1, "-DH_CIRC=1")
        if "-DH_SERIALIZE" in extra_flags:
            cmd.append("-lboost_serialization")
        r = subprocess.run(cmd, capture_output=True, text=True)
        dt = time.time() - t0
        if r.returncode != 0:
            open(exe + ".err", "w").write(r.stderr[-6000:])
            shutil.copy(cpp, exe + ".cpp")
            return None, dt, r.stderr[-6000:]
        os.replace(os.path.join(tmpd, "case"), exe)
        return exe, dt, None
    finally:
        shutil.rmtree(tmpd, ignore_errors=True)

def read_ids(exe):
    out = subprocess.run([exe, "--ids"], capture_output=True, text=True, timeout=20).stdout
    ids = {}
    for line in out.splitlines():
        t = line.split()
        if t and t[0] == "IDS":
            ids[t[1]] = list(map(int, t[2:]))
    return ids

def run_impl(exe, ops, timeout=60):
    inp = "\n".join(msmgen.txt_op(o) for o in ops) + "\n"
    r = subprocess.run([exe], input=inp, capture_output=True, text=True, timeout=timeout)
    return r.stdout, r.returncode

def run_model(md, root_lib, cfgname, ops, timeout=60):
    base, be, fct, traits, pol = cfg_parts(cfgname)
    inp = msmgen.sx_mdef(md, root_lib) + "\n" + "\n".join(msmgen.sx_op(o) for o in ops) + "\n"
    r = subprocess.run([MODEL, be, str(fct), str(pol), "0"], input=inp, capture_output=True, text=True, timeout=timeout)
    if r.returncode != 0:
        raise RuntimeError("model failed: " + r.stderr[-2000:])
    return r.stdout

def check_ids(md, exe, cfgname="back"):
    """the library's state ids (read from the compiled harness) against the documented numbering (extracted doc_order)"""
    ids = read_ids(exe)
    r = subprocess.run([MODEL, "ids", cfg_parts(cfgname)[1]], input=msmgen.sx_mdef(md) + "\n", capture_output=True, text=True, timeout=30)
    if r.returncode != 0:
        raise RuntimeError("model ids failed: " + r.stderr[-1000:])
    bad = []
    for line in r.stdout.splitlines():
        t = line.split()
        if t and t[0] == "DOC":
            order = list(map(int, t[2:]))
            lib = ids.get(t[1])
            if lib is None:
                bad.append("machine %s has no id map" % t[1]); continue
            for decl, libid in enumerate(lib):
                if decl not in order or order.index(decl) != libid:
                    bad.append("machine %s: state declared #%d has library id %d, documented order gives %s"
                               % (t[1], decl, libid, order.index(decl) if decl in order else None))
    return bad

def split_ops(out, keep_comments=False):
    """split a trace into per-operation blocks, dropping harness comment lines"""
    blocks, cur = [], []
    for line in out.splitlines():
        if line.startswith("#") and not keep_comments:
            continue
        if line == "--":
            blocks.append(cur); cur = []
        else:
            cur.append(line)
    if cur:
        blocks.append(cur)
    return blocks

def compare(md, cfgname, ops, exe=None):
    """returns dict(ok, first_diff, impl, model, bad) ; bad = the model refused (re-entrancy / fuel / unsupported)"""
    if exe is None:
        exe, _, err = build_binary(md, cfgname)
        if exe is None:
            return {"ok": False, "build_error": err}
    ids = read_ids(exe)
    root_lib = msmgen.renumber(md["root"], ids)
    model_out = run_model(md, root_lib, cfgname, ops)
    if any(l.startswith("BAD") for l in model_out.splitlines()):
        return {"ok": True, "impl": [], "model": split_ops(model_out), "bad": True, "rc": 0, "root_lib": root_lib}
    impl_out, rc = run_impl(exe, ops)
    bi, bm = split_ops(impl_out), split_ops(model_out)
    if frontend_of(cfgname) == "row2":
        bi, bm = blank_obs(bi), blank_obs(bm)
    res = {"ok": True, "impl": bi, "model": bm, "bad": any(l.startswith("BAD") for b in bm for l in b), "rc": rc,
           "root_lib": root_lib, "impl_raw": split_ops(impl_out, True), "ids": ids}
    if res["bad"]:
        return res      # the model refuses the case (re-entrancy / fuel / unsupported shape): not comparable
    for k in range(max(len(bi), len(bm))):
        a = bi[k] if k < len(bi) else None
        b = bm[k] if k < len(bm) else None
        if a != b:
            res["ok"] = False
            res["first_diff"] = {"op_index": k, "op": ops[k] if k < len(ops) else None, "impl": a, "model": b}
            break
    return res

if __name__ == "__main__":
    import pprint
    md = json.load(open(sys.argv[1]))
    cfgname = sys.argv[2]
    ops = json.load(open(sys.argv[3]))
    pprint.pprint(compare(md, cfgname, [tuple(o) for o in ops]))
