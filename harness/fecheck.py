"""fecheck.py - C14, the front-ends below the machine level:
(a) eUML transition-table expressions: generated rows (both ways of writing an external row, internal rows, completion
    rows, guard expressions with && || ! and parentheses, action lists of 0-6 actions) are given to build_stt /
    build_internal_stt at compile time; the Row<> / Internal<> types the library builds are printed by a type-to-text
    template and compared (1) with the row that was written and (2) with the Coq elaboration (Frontends.elab_euml).
(b) the functor combinators at run time: And_ / Or_ / Not_ of front/operator.hpp and of eUML, ActionSequence_ and the
    Row<> / Internal<> guard_call / action_call wrappers are executed with logging atoms under every valuation; value and
    evaluation order are compared with Frontends.gx_run / frow_action; the row_type_tag of every Row<> / Internal<>
    specialisation and of the basic / row2 templates is compared with Frontends.frow_tag / basic_tag."""
import hashlib, itertools, os, random, subprocess, shutil, tempfile
import corr

NS, NE, NA, NG = 5, 4, 7, 5

# ---- generation -------------------------------------------------------------------------------------------------
def gen_gx(rng, depth=3):
    r = rng.random()
    if depth == 0 or r < 0.35:
        return ("atom", rng.randrange(NG))
    if r < 0.5:
        return ("not", gen_gx(rng, depth - 1))
    return ("and" if r < 0.75 else "or", gen_gx(rng, depth - 1), gen_gx(rng, depth - 1))

PREC = {"or": 1, "and": 2, "not": 3, "atom": 4}
def gx_cxx(g, ctx=0, rng=None):
    """C++ text with the fewest parentheses C++ precedence needs (plus, sometimes, redundant ones)"""
    k = g[0]
    if k == "atom":
        s = "g%d" % g[1]
    elif k == "not":
        s = "!" + gx_cxx(g[1], 3, rng)
    else:
        op = " && " if k == "and" else " || "
        # left-associative: the right operand needs parentheses at equal precedence to keep the written tree
        s = gx_cxx(g[1], PREC[k], rng) + op + gx_cxx(g[2], PREC[k] + 1, rng)
    if PREC[k] < ctx or (rng is not None and rng.random() < 0.15):
        s = "(" + s + ")"
    return s

def gx_sx(g):
    if g is None:
        return "nil"
    if g[0] == "atom":
        return "(atom %d)" % g[1]
    if g[0] == "not":
        return "(not %s)" % gx_sx(g[1])
    return "(%s %s %s)" % (g[0], gx_sx(g[1]), gx_sx(g[2]))

def gen_erow(rng, internal_table=False):
    form = "internal" if internal_table else rng.choice(["first", "last", "internal", "first", "last"])
    s = rng.randrange(NS)
    e = rng.randrange(NE) if (internal_table or rng.random() < 0.85) else None
    t = rng.randrange(NS) if form != "internal" else None
    g = gen_gx(rng) if rng.random() < 0.6 else None
    nacts = rng.choice([0, 0, 1, 1, 2, 3, 3, 4, 5, 6])
    acts = [rng.randrange(NA) for _ in range(nacts)]
    if e is None and g is None and not acts and form in ("internal", "last"):
        # `sA == sB` with nothing else is read by eUML as Target == Source (the "first" form): the text of a
        # "last"-form row without event, guard and action would be ambiguous
        e = rng.randrange(NE)
    return {"form": form, "s": s, "e": e, "t": t, "g": g, "acts": acts}

def erow_cxx(r, rng, internal_table=False):
    body = "" if internal_table else "s%d" % r["s"]
    if r["e"] is not None:
        body += (" + " if body else "") + "e%d" % r["e"]
    if r["g"] is not None:
        body += " [" + gx_cxx(r["g"], 0, rng) + "]"
    if r["acts"]:
        al = ", ".join("a%d" % a for a in r["acts"])
        body += " / " + (("(" + al + ")") if len(r["acts"]) > 1 or (rng is not None and rng.random() < 0.3) else al)
    if r["form"] == "first":
        return "s%d == %s" % (r["t"], body)
    if r["form"] == "last":
        return "%s == s%d" % (body, r["t"])
    return body

def erow_sx(r):
    num = lambda x: "nil" if x is None else str(x)
    return "(euml %s %d %s %s %s (%s))" % (r["form"], r["s"], num(r["e"]), num(r["t"]), gx_sx(r["g"]), " ".join(map(str, r["acts"])))

def erow_expected(r, internal_table=False):
    num = lambda x: "nil" if x is None else str(x)
    return "ROW %s %s %s (%s) %s" % ("nil" if internal_table else r["s"], num(r["e"]), num(r["t"]),
                                     " ".join(map(str, r["acts"])), gx_sx(r["g"]))

PROBE_HEAD = r'''
#include <boost/msm/back/state_machine.hpp>
#include <boost/msm/front/state_machine_def.hpp>
#include <boost/msm/front/functor_row.hpp>
#include <boost/msm/front/operator.hpp>
#include <boost/msm/front/row2.hpp>
#include <boost/msm/front/internal_row.hpp>
#include <boost/msm/front/euml/euml.hpp>
#include <boost/mpl/for_each.hpp>
#include <cstdio>
#include <string>
#include <vector>
namespace msm = boost::msm; namespace fr = boost::msm::front; namespace eu = boost::msm::front::euml; namespace mpl = boost::mpl;
using namespace boost::msm::front::euml;
static std::vector<int> LOG; static unsigned VAL = 0;
template <int N> struct St : fr::state<>, eu::euml_state<St<N>> {};
template <int N> struct Ev : eu::euml_event<Ev<N>> {};
template <int N> struct Ac : eu::euml_action<Ac<N>> { template <class E,class F,class S,class T> void operator()(E const&,F&,S&,T&) const { LOG.push_back(100 + N); } };
template <int N> struct Gd : eu::euml_action<Gd<N>> { template <class E,class F,class S,class T> bool operator()(E const&,F&,S&,T&) const { LOG.push_back(N); return (VAL >> N) & 1; } };
#define X(n) static St<n> const s##n;
X(0) X(1) X(2) X(3) X(4)
#undef X
#define X(n) static Ev<n> const e##n;
X(0) X(1) X(2) X(3)
#undef X
#define X(n) static Ac<n> const a##n;
X(0) X(1) X(2) X(3) X(4) X(5) X(6)
#undef X
#define X(n) static Gd<n> const g##n;
X(0) X(1) X(2) X(3) X(4)
#undef X
template <class T> struct Show { static std::string s() { return "?"; } };
template <int N> struct Show<St<N>> { static std::string s() { return std::to_string(N); } };
template <int N> struct Show<Ev<N>> { static std::string s() { return std::to_string(N); } };
template <int N> struct Show<Ac<N>> { static std::string s() { return std::to_string(N); } };
template <int N> struct Show<Gd<N>> { static std::string s() { return "(atom " + std::to_string(N) + ")"; } };
template <> struct Show<fr::none> { static std::string s() { return "nil"; } };
template <class A, class B> struct Show<fr::And_<A, B>> { static std::string s() { return "(and " + Show<A>::s() + " " + Show<B>::s() + ")"; } };
template <class A, class B> struct Show<fr::Or_<A, B>> { static std::string s() { return "(or " + Show<A>::s() + " " + Show<B>::s() + ")"; } };
template <class A> struct Show<fr::Not_<A>> { static std::string s() { return "(not " + Show<A>::s() + ")"; } };
template <class A, class B> struct Show<eu::And_<A, B>> { static std::string s() { return "(and " + Show<A>::s() + " " + Show<B>::s() + ")"; } };
template <class A, class B> struct Show<eu::Or_<A, B>> { static std::string s() { return "(or " + Show<A>::s() + " " + Show<B>::s() + ")"; } };
template <class A> struct Show<eu::Not_<A>> { static std::string s() { return "(not " + Show<A>::s() + ")"; } };
struct ShowEach { std::string* out; template <class T> void operator()(T const&) const { *out += (out->empty() ? "" : " ") + Show<T>::s(); } };
template <class Seq> struct Show<fr::ActionSequence_<Seq>> { static std::string s() { std::string o; mpl::for_each<Seq>(ShowEach{&o}); return o; } };
template <class T> struct Acts { static std::string s() { return Show<T>::s(); } };
template <> struct Acts<fr::none> { static std::string s() { return ""; } };
template <class S, class E, class T, class A, class G> struct Show<fr::Row<S, E, T, A, G>> {
  static std::string s() { return "ROW " + Show<S>::s() + " " + Show<E>::s() + " " + Show<T>::s() + " (" + Acts<A>::s() + ") " + Show<G>::s(); } };
template <class E, class A, class G> struct Show<fr::Internal<E, A, G>> {
  static std::string s() { return "ROW nil " + Show<E>::s() + " nil (" + Acts<A>::s() + ") " + Show<G>::s(); } };
struct PrintRow { template <class R> void operator()(R const&) const { std::printf("%s\n", Show<R>::s().c_str()); } };
template <class Table> void show_table(Table const&) { mpl::for_each<Table>(PrintRow()); }
// row tags
template <class T> struct TagName { static const char* s() { return "?"; } };
#define TAG(t, n) template <> struct TagName<msm::t> { static const char* s() { return n; } };
TAG(row_tag, "row") TAG(a_row_tag, "a_row") TAG(g_row_tag, "g_row") TAG(_row_tag, "_row")
TAG(irow_tag, "irow") TAG(a_irow_tag, "a_irow") TAG(g_irow_tag, "g_irow") TAG(_irow_tag, "_irow")
TAG(sm_i_row_tag, "irow") TAG(sm_a_i_row_tag, "a_irow") TAG(sm_g_i_row_tag, "g_irow") TAG(sm__i_row_tag, "_irow")
struct PrintTag { template <class R> void operator()(R const&) const { std::printf("TAG %s\n", TagName<typename R::row_type_tag>::s()); } };
template <class Table> void show_tags(Table const&) { mpl::for_each<Table>(PrintTag()); }
// run-time meaning: guard_call / action_call of the first row of a table under every valuation of the guards
struct Dummy {};
struct RunRow {
  template <class R> void operator()(R const&) const {
    Dummy fsm, src, tgt, all; typename R::Evt evt;
    for (unsigned v = 0; v < 32; ++v) {
      VAL = v; LOG.clear();
      bool b = true;
      if constexpr (requires { R::guard_call(fsm, evt, src, tgt, all); }) b = R::guard_call(fsm, evt, src, tgt, all);
      std::printf("RUN %u %d :", v, (int)b);
      for (int x : LOG) std::printf(" %d", x);
      LOG.clear();
      if constexpr (requires { R::action_call(fsm, evt, src, tgt, all); }) R::action_call(fsm, evt, src, tgt, all);
      std::printf(" /");
      for (int x : LOG) std::printf(" %d", x - 100);
      std::printf("\n");
    }
  }
};
template <class Table> void run_rows(Table const&) { mpl::for_each<Table>(RunRow()); }
// the basic front-end and the row2 family: which tag each template declares
struct BF : fr::state_machine_def<BF> {
  void act(Ev<0> const&) {} bool grd(Ev<0> const&) { return true; }
  typedef St<0> A_; typedef St<1> B_;
  static void tags() {
#define P(n, ...) std::printf("BTAG %s %s\n", n, TagName<typename __VA_ARGS__::row_type_tag>::s());
    P("row", BF::row<A_, Ev<0>, B_, &BF::act, &BF::grd>) P("a_row", BF::a_row<A_, Ev<0>, B_, &BF::act>)
    P("g_row", BF::g_row<A_, Ev<0>, B_, &BF::grd>) P("_row", BF::_row<A_, Ev<0>, B_>)
    P("irow", BF::irow<A_, Ev<0>, &BF::act, &BF::grd>) P("a_irow", BF::a_irow<A_, Ev<0>, &BF::act>)
    P("g_irow", BF::g_irow<A_, Ev<0>, &BF::grd>) P("_irow", BF::_irow<A_, Ev<0>>)
    P("row2", fr::row2<A_, Ev<0>, B_, BF, &BF::act, BF, &BF::grd>) P("a_row2", fr::a_row2<A_, Ev<0>, B_, BF, &BF::act>)
    P("g_row2", fr::g_row2<A_, Ev<0>, B_, BF, &BF::grd>) P("_row2", fr::_row2<A_, Ev<0>, B_>)
    P("irow2", fr::irow2<A_, Ev<0>, BF, &BF::act, BF, &BF::grd>) P("a_irow2", fr::a_irow2<A_, Ev<0>, BF, &BF::act>)
    P("g_irow2", fr::g_irow2<A_, Ev<0>, BF, &BF::grd>)
    P("internal", fr::internal<Ev<0>, BF, &BF::act, BF, &BF::grd>) P("a_internal", fr::a_internal<Ev<0>, BF, &BF::act>)
    P("g_internal", fr::g_internal<Ev<0>, BF, &BF::grd>) P("_internal", fr::_internal<Ev<0>>)
#undef P
  }
};
'''

def cxx_type_gx(g, ns):
    if g is None:
        return "fr::none"
    if g[0] == "atom":
        return "Gd<%d>" % g[1]
    if g[0] == "not":
        return "%s::Not_<%s>" % (ns, cxx_type_gx(g[1], ns))
    return "%s::%s<%s, %s>" % (ns, "And_" if g[0] == "and" else "Or_", cxx_type_gx(g[1], ns), cxx_type_gx(g[2], ns))

def functor_row_type(r):
    """the same content written as a functor Row<> / Internal<> with front::And_/Or_/Not_ and ActionSequence_<mpl::vector<>>"""
    acts = r["acts"]
    a = "fr::none" if not acts else ("Ac<%d>" % acts[0] if len(acts) == 1 and r.get("single", True) else
                                      "fr::ActionSequence_<mpl::vector<%s> >" % ", ".join("Ac<%d>" % x for x in acts))
    e = "fr::none" if r["e"] is None else "Ev<%d>" % r["e"]
    t = "fr::none" if r["t"] is None else "St<%d>" % r["t"]
    return "fr::Row<St<%d>, %s, %s, %s, %s>" % (r["s"], e, t, a, cxx_type_gx(r["g"], "fr"))

def build(src, tag):
    d = os.path.join(corr.CACHE, corr.repo_hash())
    os.makedirs(d, exist_ok=True)
    exe = os.path.join(d, tag + "_" + hashlib.sha256(src.encode()).hexdigest()[:12])
    if os.path.exists(exe):
        return exe, None
    tmpd = tempfile.mkdtemp(prefix="tmp.", dir=corr.CACHE)
    try:
        open(os.path.join(tmpd, "p.cpp"), "w").write(src)
        r = subprocess.run(["g++", "-std=gnu++20", "-O0", "-w", "-ftemplate-depth=2000", "-I", os.path.join(corr.REPO, "include"),
                            os.path.join(tmpd, "p.cpp"), "-o", os.path.join(tmpd, "p")], capture_output=True, text=True)
        if r.returncode != 0:
            return None, r.stderr[-3000:]
        os.replace(os.path.join(tmpd, "p"), exe)
        return exe, None
    finally:
        shutil.rmtree(tmpd, ignore_errors=True)

def expected_run(r, v):
    """value / evaluation order of the guard and the action order, computed from the written row (C++ semantics)"""
    log = []
    def ev(g):
        if g[0] == "atom":
            log.append(g[1]); return bool((v >> g[1]) & 1)
        if g[0] == "not":
            return not ev(g[1])
        if g[0] == "and":
            return ev(g[1]) and ev(g[2])
        return ev(g[1]) or ev(g[2])
    b = True if r["g"] is None else ev(r["g"])
    return "RUN %d %d :%s /%s" % (v, int(b), "".join(" %d" % x for x in log), "".join(" %d" % a for a in r["acts"]))

TAGS = {(False, True, True): "row", (False, True, False): "a_row", (False, False, True): "g_row", (False, False, False): "_row",
        (True, True, True): "irow", (True, True, False): "a_irow", (True, False, True): "g_irow", (True, False, False): "_irow"}

def model_lines(lines):
    r = subprocess.run([corr.MODEL, "fe"], input="\n".join(lines) + "\n", capture_output=True, text=True, timeout=120)
    if r.returncode != 0:
        raise RuntimeError("model fe mode failed: " + r.stderr[-1500:])
    return r.stdout.split("\n")

def run(seed, ntables, stats):
    """returns (mismatches, violations)"""
    rng = random.Random("fe/%d" % seed)
    mismatches, violations = [], []
    tables = []
    # hand-written first: the shapes the proofs split on (action lists of every length up to 6, both row forms)
    fixed = [[{"form": f, "s": 0, "e": 1, "t": (2 if f != "internal" else None), "g": None, "acts": list(range(k))} for k in range(0, 7)] for f in ("first", "last", "internal")]
    fixed.append([{"form": "first", "s": 1, "e": None, "t": 2, "g": ("or", ("and", ("atom", 0), ("not", ("atom", 1))), ("atom", 2)), "acts": [3, 1, 2]},
                  {"form": "last", "s": 2, "e": 0, "t": 1, "g": ("and", ("or", ("atom", 0), ("atom", 1)), ("or", ("atom", 2), ("atom", 3))), "acts": []},
                  {"form": "first", "s": 3, "e": 2, "t": 3, "g": ("not", ("or", ("atom", 4), ("and", ("atom", 0), ("atom", 0)))), "acts": [6, 6]}])
    for t in fixed:
        tables.append((False, t))
    while len(tables) < len(fixed) + ntables:
        internal = rng.random() < 0.25
        tables.append((internal, [gen_erow(rng, internal) for _ in range(rng.choice([1, 2, 3, 5, 8]))]))
    for lo in range(0, len(tables), 12):
        chunk = tables[lo:lo + 12]
        body = ["int main() {", "  BF::tags();"]
        for i, (internal, rows) in enumerate(chunk):
            expr = ",\n      ".join(erow_cxx(r, rng, internal) for r in rows)
            fn = "build_internal_stt" if internal else "build_stt"
            body.append("  { auto t = %s((\n      %s\n  )); std::printf(\"TABLE %d\\n\"); show_table(t); show_tags(t); run_rows(t); }" % (fn, expr, i))
            if not internal:
                # the same rows written with the functor front-end (front::And_ / Or_ / Not_, ActionSequence_<mpl::vector>)
                body.append("  { typedef mpl::vector<%s> FT; std::printf(\"FTABLE %d\\n\"); show_table(FT()); show_tags(FT()); run_rows(FT()); }"
                            % (",\n      ".join(functor_row_type(r) for r in rows), i))
        body.append("}")
        exe, err = build(PROBE_HEAD + "\n".join(body) + "\n", "fe_probe")
        if exe is None:
            mismatches.append({"machine": "front-end probe", "cfg": "euml", "kind": "build", "detail": err, "md": None, "ops": []})
            continue
        stats.programs += 1
        out = subprocess.run([exe], capture_output=True, text=True, timeout=300).stdout.split("\n")
        # split the output per table
        sect, cur = {}, None
        btags = {}
        for l in out:
            if l.startswith("TABLE ") or l.startswith("FTABLE "):
                cur = l; sect[cur] = []
            elif l.startswith("BTAG "):
                _, k, t = l.split(); btags[k] = t
            elif cur is not None and l:
                sect[cur].append(l)
        # basic / row2 templates: declared tag vs Frontends.basic_tag
        mlines = model_lines(["(basictag %s)" % k for k in sorted(btags)])
        for k, ml in zip(sorted(btags), mlines):
            stats.dist[("basic / row2 / internal template tags checked",)] += 1
            if "TAG " + btags[k] != ml:
                violations.append({"machine": "front-end probe", "cfg": "basic", "md": None, "ops": [k],
                                   "why": "template %s declares row_type_tag %s, its content gives %s" % (k, btags[k], ml)})
        for i, (internal, rows) in enumerate(chunk):
            for kind in (["TABLE"] if internal else ["TABLE", "FTABLE"]):
                got = sect.get("%s %d" % (kind, i), [])
                n = len(rows)
                shown, tags, runs = got[:n], got[n:2 * n], got[2 * n:]
                model = model_lines([erow_sx(r) for r in rows])
                for k, r in enumerate(rows):
                    stats.traces += 1
                    stats.evaluations += 33
                    stats.nontrivial.add(("fe", kind, erow_cxx(r, None, internal)))
                    stats.dist[("%s rows by number of actions" % ("eUML" if kind == "TABLE" else "functor"), len(r["acts"]))] += 1
                    exp = erow_expected(r, internal)
                    a = shown[k] if k < len(shown) else None
                    text = erow_cxx(r, None, internal)
                    mexp = model[2 * k] if 2 * k < len(model) else None
                    if internal and mexp:
                        mexp = "ROW nil" + mexp[len("ROW %d" % r["s"]):]
                    if a != mexp:
                        mismatches.append({"machine": "front-end probe", "cfg": kind, "kind": "trace",
                                           "detail": {"row": text, "impl": a, "model": mexp}, "md": None, "ops": [text]})
                    if a != exp:
                        violations.append({"machine": "front-end probe", "cfg": "euml" if kind == "TABLE" else "functor", "md": None, "ops": [text],
                                           "why": "the row written as %r is built as %r; written content is %r" % (text, a, exp)})
                        continue
                    tg = tags[k] if k < len(tags) else None
                    exp_tag = "TAG " + TAGS[(r["t"] is None, bool(r["acts"]), r["g"] is not None)]
                    mtag = model[2 * k + 1] if 2 * k + 1 < len(model) else None
                    if tg != mtag:
                        mismatches.append({"machine": "front-end probe", "cfg": kind, "kind": "trace",
                                           "detail": {"row": text, "impl": tg, "model": mtag}, "md": None, "ops": [text]})
                    if tg != exp_tag:
                        violations.append({"machine": "front-end probe", "cfg": kind, "md": None, "ops": [text],
                                           "why": "the row %r gets row_type_tag %s, its content (target / action / guard present) gives %s" % (text, tg, exp_tag)})
                    rr = runs[32 * k:32 * k + 32]
                    mrun = model_lines(["(run %s (%s) %d)" % (gx_sx(r["g"]), " ".join(map(str, r["acts"])), v) for v in range(32)])
                    for v in range(32):
                        e = expected_run(r, v)
                        g = rr[v] if v < len(rr) else None
                        if g != mrun[v]:
                            mismatches.append({"machine": "front-end probe", "cfg": kind, "kind": "trace",
                                               "detail": {"row": text, "valuation": v, "impl": g, "model": mrun[v]}, "md": None, "ops": [text]})
                            break
                        if g != e:
                            violations.append({"machine": "front-end probe", "cfg": kind, "md": None, "ops": [text, v],
                                               "why": "row %r under guard valuation %d: the library evaluates / runs %r, C++ semantics of the written row give %r" % (text, v, g, e)})
                            break
    return mismatches, violations
