"""fuzz.py - random differential run: python3 fuzz.py <seed0> <nmachines> <nops> <cfgs,comma> [feature=value ...]"""
import sys, random, json, time
from concurrent.futures import ThreadPoolExecutor
import msmgen, corr, gen

def main():
    seed0, nm, nops = int(sys.argv[1]), int(sys.argv[2]), int(sys.argv[3])
    cfgs = sys.argv[4].split(",")
    feat = {}
    for a in sys.argv[5:]:
        k, v = a.split("=")
        feat[k] = json.loads(v)
    jobs = []
    for i in range(nm):
        rng = random.Random(seed0 * 1000 + i)
        g = gen.Gen(rng, feat)
        md = g.gen_mdef()
        opss = [g.gen_ops(md, nops) for _ in range(3)]
        for c in cfgs:
            if msmgen.supported(md, c):
                jobs.append((i, c, md, opss))
    def work(j):
        i, c, md, opss = j
        exe, dt, err = corr.build_binary(md, c)
        if exe is None:
            return (i, c, "BUILD", err, md, None)
        for ops in opss:
            try:
                r = corr.compare(md, c, ops, exe)
            except Exception as e:
                return (i, c, "EXC", repr(e), md, ops)
            if not r["ok"]:
                return (i, c, "DIFF", r["first_diff"], md, ops)
            if r["bad"]:
                return (i, c, "BAD", None, md, ops)
        return (i, c, "OK", None, md, None)
    t0 = time.time()
    with ThreadPoolExecutor(14) as ex:
        res = list(ex.map(work, jobs))
    cnt = {}
    for i, c, st, info, md, ops in res:
        cnt[st] = cnt.get(st, 0) + 1
    print(cnt, "%.1fs" % (time.time() - t0))
    shown = 0
    for i, c, st, info, md, ops in res:
        if st in ("DIFF", "BUILD", "EXC") and shown < int(feat.get("show", 3)):
            shown += 1
            print("=====", i, c, st)
            if st == "DIFF":
                print("op", info["op_index"], info["op"])
                a, b = info["impl"] or [], info["model"] or []
                for k in range(min(40, max(len(a), len(b)))):
                    x = a[k] if k < len(a) else "-"
                    y = b[k] if k < len(b) else "-"
                    print(("   " if x == y else ">> ") + "%-45s | %s" % (x, y))
                json.dump({"md": md, "ops": ops, "cfg": c}, open("/tmp/fail_%d_%s.json" % (i, c.replace(":", "_")), "w"))
            else:
                print(str(info)[-1500:])
main()
