"""gen.py - seeded random generator of well-formed machine definitions and operation lists.
Every random choice derives from the one random.Random instance passed in."""
import random
from msmgen import row, state, machine, mdef, EV_FIRST_USER, walk, all_rows

DEFAULT_FEATURES = {
    "max_depth": 2,          # nesting depth below the root
    "max_regions": 3,
    "max_states_per_region": 3,
    "p_sub": 0.35,           # a non-initial or initial state is a submachine
    "p_guard": 0.5,
    "p_action": 0.6,
    "p_internal_in_table": 0.15,
    "p_state_irows": 0.3,
    "p_sm_irows": 0.3,
    "extra_rows": 4,
    "nevents": 4,
    "endintr_in_table": False,   # end-interrupt events are chosen among the events of the machine's own table
    "completion": False,
    "defer": False,          # state deferred_events lists
    "defer_action": False,   # Defer functor rows
    "history": False,
    "blocking": False,       # terminate / interrupt states
    "base_events": False,
    "kleene": False,
    "plans": False,          # submissions / faults from behaviours
    "throws": False,
    "queue_ops": False,
    "flags": False,
    "pseudo": False,
    "defer_root": False,              # deferring states only in the root machine
    "blocking_root": False,           # terminate / interrupt states only in the root machine
    "fixed_completion_guards": False, # guards of completion rows keep one value during a whole operation list
    "single_completion_region": False,# completion rows in at most one region per machine (F12)
    "unguarded_completion": False,    # completion rows carry no guard (F20)
}

PROFILES = {
    "core":  {},
    "nest":  {"max_depth": 2, "p_sub": 0.55, "max_regions": 2, "max_states_per_region": 2},
    "compl": {"completion": True},
    "defer": {"defer": True, "completion": True},
    "hist":  {"history": True, "p_sub": 0.5},
    "block": {"blocking": True},
    "rtc":   {"plans": True, "queue_ops": True, "completion": True},
    "throw": {"throws": True, "plans": True, "completion": True},
    "all":   {"completion": True, "defer": True, "history": True, "blocking": True},
    "flags": {"flags": True, "max_depth": 2, "p_sub": 0.45},
    "events": {"base_events": True, "kleene": True, "nevents": 5},
    "common": {"endintr_in_table": True, "completion": True, "defer_root": True, "history": True, "p_sm_irows": 0.0, "p_state_irows": 0.0, "fixed_completion_guards": True,
               "unguarded_completion": True,
               "blocking_root": True, "flags": True, "max_regions": 2, "single_completion_region": True},
    "copy":  {"history": True, "defer": True, "completion": True, "p_sub": 0.5, "pseudo": True, "max_depth": 1},
    "pseudo": {"pseudo": True, "history": True, "p_sub": 0.6, "max_depth": 1},
    # feature combinations: every property additionally runs a few machines that mix what the other profiles keep apart
    # (deferral next to blocking states and pseudo states, completion inside submachines with history, orthogonal regions
    # at two levels), with behaviours that submit events
    "mix":   {"completion": True, "defer": True, "history": True, "blocking": True, "pseudo": True, "plans": True,
              "p_sub": 0.5, "max_depth": 2, "max_regions": 2},
    # C14: what every front-end can write (no Defer functor action): completion rows, explicit entry / fork / entry and exit
    # points, history, state-local and machine-level internal tables.  Kleene / base-class triggers are exercised by the
    # profile `events` (C18) only: where the library decides by the static type a base-class or Kleene row hands on
    # (history lists, exit-point conversion), the model's one-type events are not faithful
    "frontend": {"pseudo": True, "history": True, "completion": True, "p_sub": 0.45, "max_depth": 2,
                 "nevents": 5, "p_state_irows": 0.5, "p_sm_irows": 0.4, "p_internal_in_table": 0.25},
}

class Gen:
    def __init__(self, rng, feat=None):
        self.rng = rng
        self.f = dict(DEFAULT_FEATURES)
        if feat:
            self.f.update(feat)
        self.next_row = 1
        self.events = list(range(EV_FIRST_USER, EV_FIRST_USER + self.f["nevents"]))

    def rid(self):
        r = self.next_row
        self.next_row += 1
        return r

    def mk_row(self, src, tgt, allow_completion=False, internal=False):
        rng, f = self.rng, self.f
        trig = ["ev", rng.choice(self.events)]
        if f["kleene"] and rng.random() < 0.1:
            trig = "any"
        act = "call" if rng.random() < f["p_action"] else "none"
        if f["defer_action"] and rng.random() < 0.1:
            act = "defer"
        return row(self.rid(), src, trig, "none" if internal else tgt, guard=rng.random() < f["p_guard"], act=act)

    def gen_machine(self, depth):
        rng, f = self.rng, self.f
        nreg = rng.randint(1, f["max_regions"])
        states, inits, zones = [], [], []
        for z in range(nreg):
            n = rng.randint(1, f["max_states_per_region"])
            first = len(states)
            inits.append(first)
            for k in range(n):
                sub = None
                if depth < f["max_depth"] and rng.random() < f["p_sub"]:
                    sub = self.gen_machine(depth + 1)
                kind = "simple"
                if sub is None and (f["blocking"] or (f["blocking_root"] and depth == 0)) and k > 0 and rng.random() < 0.2:
                    kind = "term" if rng.random() < 0.5 else ["intr"] + rng.sample(self.events, rng.randint(1, 2))
                st = state(kind=kind, sub=sub, zone=z)
                if f["flags"] and rng.random() < 0.4:
                    st["flags"] = sorted(rng.sample([0, 1, 2], rng.randint(1, 2)))
                states.append(st)
            zones.append(list(range(first, first + n)))
        rows = []
        for z, members in enumerate(zones):
            # every non-initial state gets an incoming row so that it exists in the library's state list
            for s in members[1:]:
                src = rng.choice([x for x in members if x != s])
                rows.append(self.mk_row(src, s))
            for _ in range(rng.randint(0, f["extra_rows"])):
                src = rng.choice(members)
                if states[src]["kind"] == "term":
                    continue
                if rng.random() < f["p_internal_in_table"]:
                    rows.append(self.mk_row(src, None, internal=True))
                else:
                    rows.append(self.mk_row(src, rng.choice(members)))
        if f["endintr_in_table"]:
            # backmp11 favor_compile_time recognises an end-interrupt event only if it occurs in the machine's own table
            # (known finding F14): the common subset only uses end events that do
            in_table = sorted({r["trig"][1] for r in rows if isinstance(r["trig"], list)})
            for st in states:
                if isinstance(st["kind"], list) and st["kind"][0] == "intr":
                    ends = [e for e in st["kind"][1:] if e in in_table]
                    st["kind"] = (["intr"] + ends) if ends else ((["intr", in_table[0]]) if in_table else "term")
        rng.shuffle(rows)
        # make conflicts likely: duplicate the trigger of an existing row from the same source
        for _ in range(rng.randint(0, 2)):
            if rows:
                r0 = rng.choice(rows)
                members = zones[states[r0["src"]]["zone"]]
                r1 = self.mk_row(r0["src"], rng.choice(members))
                r1["trig"] = r0["trig"]
                rows.insert(rng.randint(0, len(rows)), r1)
        for i, st in enumerate(states):
            if st["sub"] is None and st["kind"] == "simple" and rng.random() < f["p_state_irows"]:
                st["sirows"] = [self.mk_row(i, None, internal=True) for _ in range(rng.randint(1, 2))]
        irows = []
        if rng.random() < f["p_sm_irows"]:
            irows = [self.mk_row(0, None, internal=True) for _ in range(rng.randint(1, 2))]
        if f["completion"]:
            for z, members in enumerate(zones):
                if f["single_completion_region"] and z > 0:
                    break
                for a in members:
                    if states[a]["sub"] is None and states[a]["kind"] == "simple" and rng.random() < 0.25:
                        later = [b for b in members if b > a]
                        if later:
                            r = self.mk_row(a, rng.choice(later))
                            r["trig"] = "none"
                            if f["unguarded_completion"]:
                                r["guard"] = False
                            rows.insert(rng.randint(0, len(rows)), r)
        if f["defer"] or (f["defer_root"] and depth == 0):
            def trig_events(rs):
                return {r["trig"][1] for r in rs if r["trig"] not in ("any", "none")}
            def machine_events(m):
                from msmgen import walk, all_rows
                return {e for _, mm in walk(m) for e in trig_events(all_rows(mm))}
            for i, st in enumerate(states):
                if st["sub"] is None and st["kind"] == "simple" and rng.random() < 0.3:
                    z = st["zone"]
                    # documented limitation of back: the deferred event must not be handled by the same state,
                    # nor anywhere in a sibling region (including submachines there), nor in the sm-internal table
                    handled = trig_events([r for r in rows if r["src"] == i]) | trig_events(st["sirows"]) | trig_events(irows)
                    if rng.random() < 0.6:
                        # most of the time keep to the static form of the limitation: not handled anywhere in a sibling region
                        for j, other in enumerate(states):
                            if other["zone"] != z:
                                handled |= trig_events([r for r in rows if r["src"] == j]) | trig_events(other["sirows"])
                                if other["sub"] is not None:
                                    handled |= machine_events(other["sub"])
                    cand = [e for e in self.events if e not in handled]
                    if cand:
                        st["defers"] = rng.sample(cand, 1)
        pseudo = {"explicit": [], "entrypts": [], "exitpts": []}
        if f["pseudo"] and depth > 0:
            # exit-point events need a converting constructor: all generated events have one.  An event type that is a base
            # class of another is not used: back hands the entering derived event to the connected transition by
            # reference (its behaviours see the derived object), backmp11 converts it - not modelled
            base_events = [e for e in self.events if not (f["base_events"] and e == self.events[0])]
            for z, members in enumerate(zones):
                simple = [s for s in members if states[s]["sub"] is None and states[s]["kind"] == "simple"]
                if simple and rng.random() < 0.6:
                    s0 = rng.choice(simple)
                    states[s0]["explicit"] = True
                    pseudo["explicit"].append(s0)
                if simple and rng.random() < 0.4:
                    e = rng.choice(self.events)
                    p = len(states)
                    states.append(state(kind="entrypt", zone=z))
                    zones[z].append(p)
                    r = self.mk_row(p, rng.choice(simple))
                    r["trig"] = ["ev", e]
                    rows.append(r)
                    pseudo["entrypts"].append((p, e))
                if simple and rng.random() < 0.4:
                    ex = rng.choice(base_events)
                    p = len(states)
                    states.append(state(kind=["exitpt", ex], zone=z))
                    zones[z].append(p)
                    r = self.mk_row(rng.choice(simple), p)
                    rows.append(r)
                    pseudo["exitpts"].append((p, ex))
        hist = "none"
        if f["history"] and depth > 0:
            # a base-class row hands the event on as its base type, and ShallowHistory<Events> tests that static type; the
            # model's events carry one type: base classes are kept out of the history lists
            hevs = [e for e in self.events if not (f["base_events"] and e == self.events[0])]
            hist = rng.choice(["none", "always", ["shallow"] + rng.sample(hevs, rng.randint(1, 2))])
        # rows of this machine that use the pseudo states of its submachines
        for i, st in enumerate(states):
            sub = st["sub"]
            if sub is None or "_pseudo" not in sub:
                continue
            ps = sub.pop("_pseudo")
            members = zones[st["zone"]]
            others = [x for x in members if x != i and states[x]["kind"] in ("simple",) and states[x]["sub"] is None]
            if not others:
                continue
            for s0 in ps["explicit"]:
                r = self.mk_row(rng.choice(others), i)
                r["tgt"] = ["direct", i, [s0]]
                rows.append(r)
            if len(ps["explicit"]) >= 2 and rng.random() < 0.7:
                r = self.mk_row(rng.choice(others), i)
                r["tgt"] = ["direct", i, sorted(ps["explicit"], key=lambda x: sub["states"][x]["zone"])]
                rows.append(r)
            for p, e in ps["entrypts"]:
                r = self.mk_row(rng.choice(others), i)
                r["trig"] = ["ev", e]
                r["tgt"] = ["entrypt", i, p]
                rows.append(r)
            for p, ex in ps["exitpts"]:
                r = self.mk_row(i, rng.choice(others))
                r["trig"] = ["ev", ex]
                r["exitpt"] = p
                rows.append(r)
        # mpl::vector holds 20 rows (BOOST_MPL_LIMIT_VECTOR_SIZE): drop rows from the end - the ones appended last use the
        # pseudo states of submachines and are not needed to make a state of this machine known to the library
        def mentions(r):
            out = {r["src"]}
            t = r["tgt"]
            if t != "none":
                out.add(t[1])
            return out
        k = len(rows) - 1
        while len(rows) > 20 and k >= 0:
            others = set(inits)
            for j, r in enumerate(rows):
                if j != k:
                    others |= mentions(r)
            if mentions(rows[k]) <= others:
                rows.pop(k)         # no state of this machine becomes unknown to the library
            k -= 1
        m = machine(states, inits, rows, irows, hist)
        if f["pseudo"] and depth > 0:
            m["_pseudo"] = pseudo
        return m

    def gen_mdef(self):
        root = self.gen_machine(0)
        parents = {}
        if self.f["base_events"] and len(self.events) >= 2:
            # last event derives from the first
            parents[self.events[-1]] = self.events[0]
        return mdef(root, self.f["nevents"], parents)

    # ------------------------------------------------------------------
    def guard_ids(self, md):
        return [r["id"] for _, m in walk(md["root"]) for r in all_rows(m) if r["guard"]]

    def gen_plan(self):
        rng, f = self.rng, self.f
        plan = []
        if f["plans"] and rng.random() < 0.4:
            for _ in range(rng.randint(1, 3)):
                idx = rng.randint(0, 8)
                if any(i == idx for i, _ in plan):
                    continue
                kind = rng.random()
                if f["throws"] and kind < 0.3:
                    plan.append((idx, ("throw",)))
                    # the behaviour invoked next is exception_caught: let it submit an event now and then
                    if rng.random() < 0.4 and not any(i == idx + 1 for i, _ in plan):
                        plan.append((idx + 1, (rng.choice(["proc", "enq"]), rng.choice(self.events), rng.randint(0, 99))))
                elif kind < 0.7:
                    plan.append((idx, ("proc", rng.choice(self.events), rng.randint(0, 99))))
                else:
                    plan.append((idx, ("enq", rng.choice(self.events), rng.randint(0, 99))))
        elif f["throws"] and rng.random() < 0.2:
            plan.append((rng.randint(0, 8), ("throw",)))
        return sorted(plan)

    def start_plan(self):
        """submissions from the entry behaviours that run during start() (no throws: an exception leaves start())"""
        return [(i, c) for i, c in self.gen_plan() if c[0] != "throw"]

    def completion_guard_ids(self, md):
        return [r["id"] for _, m in walk(md["root"]) for r in all_rows(m) if r["guard"] and r["trig"] == "none"]

    def gen_ops(self, md, n):
        rng, f = self.rng, self.f
        gids = self.guard_ids(md)
        if f["fixed_completion_guards"]:
            cg = self.completion_guard_ids(md)
            self._fixed = {g: (rng.random() < 0.6) for g in cg}
        else:
            self._fixed = {}
        ops = [("start", self.val(gids), self.start_plan())]
        pay = 100
        for _ in range(n):
            x = rng.random()
            pay += 1
            if f["queue_ops"] and x < 0.1:
                ops.append(("enqueue", rng.choice(self.events), pay))
            elif f["queue_ops"] and x < 0.18:
                ops.append((rng.choice(["drain", "drain1"]), self.val(gids), self.gen_plan()))
            elif x < 0.22:
                ops.append(("stop", []))
                ops.append(("start", self.val(gids), self.start_plan()))
            else:
                ops.append(("process", rng.choice(self.events), pay, self.val(gids), self.gen_plan()))
        return ops

    def gen_ops_queue(self, md, n):
        """operation lists aimed at the queue: bursts of enqueue_event followed by single steps and full drains"""
        rng = self.rng
        gids = self.guard_ids(md)
        ops = [("start", self.val(gids), self.start_plan())]
        pay = 200
        while len(ops) < n:
            k = rng.randint(1, 4)
            for _ in range(k):
                pay += 1
                ops.append(("enqueue", rng.choice(self.events), pay))
            for _ in range(rng.randint(0, k)):
                ops.append(("drain1", self.val(gids), self.gen_plan()))
            if rng.random() < 0.6:
                ops.append(("drain", self.val(gids), self.gen_plan()))
            pay += 1
            ops.append(("process", rng.choice(self.events), pay, self.val(gids), self.gen_plan()))
        return ops

    def gen_ops_queue_plain(self, md, n):
        """start / stop / process_event / enqueue_event / execute_queued_events without submissions from behaviours: the
        histories the specification with a pending list (Spec.sp_qrun) covers"""
        rng = self.rng
        gids = self.guard_ids(md)
        ops = [("enqueue", rng.choice(self.events), 199)] if rng.random() < 0.3 else []
        ops.append(("start", self.val(gids), []))
        pay = 200
        while len(ops) < n:
            for _ in range(rng.randint(0, 3)):
                pay += 1
                ops.append(("enqueue", rng.choice(self.events), pay))
            x = rng.random()
            pay += 1
            if x < 0.25:
                ops.append(("drain", self.val(gids), []))
            elif x < 0.35:
                ops.append(("drain1", self.val(gids), []))
            elif x < 0.45:
                ops.append(("stop", []))
                ops.append(("start", self.val(gids), []))
            else:
                ops.append(("process", rng.choice(self.events), pay, self.val(gids), []))
        return ops

    def gen_ops_copy(self, md, n, mode="copy", pending=True):
        """histories with several machine objects: object 0 is driven for a while, then copied / assigned / moved /
        saved+loaded into another object at a quiescent point (optionally with events pending in its queue), then both
        are driven with different continuations"""
        rng = self.rng
        gids = self.guard_ids(md)
        ops = [("start", self.val(gids), [])]
        pay = 300
        alive = [0]
        def proc(k):
            nonlocal pay
            pay += 1
            return ("on", k, ("process", rng.choice(self.events), pay, self.val(gids), []))
        for _ in range(rng.randint(1, n // 2)):
            ops.append(proc(0))
        while len(ops) < n:
            x = rng.random()
            if x < 0.25 and len(alive) < 4:
                src = rng.choice(alive)
                if pending and rng.random() < 0.4:
                    pay += 1
                    ops.append(("on", src, ("enqueue", rng.choice(self.events), pay)))
                dst = max(alive) + 1
                if mode == "saveload":
                    ops.append(("saveload", dst, src))
                elif mode == "move" and rng.random() < 0.4:
                    ops.append(("move", dst, src))
                    # the moved-from object may only be assigned to (or destroyed) afterwards
                    ops.append(("assign", src, dst))
                else:
                    ops.append(("copy", dst, src))
                alive.append(dst)
            elif x < 0.35 and len(alive) >= 2 and mode != "saveload":
                a, b = rng.sample(alive, 2)
                ops.append(("assign", a, b))
            elif x < 0.45 and pending:
                ops.append(("on", rng.choice(alive), ("drain", self.val(gids), [])))
            else:
                ops.append(proc(rng.choice(alive)))
        return ops

    def val(self, gids):
        p = self.rng.choice([0.2, 0.5, 0.8])
        fixed = getattr(self, "_fixed", {})
        return [g for g in gids if (fixed[g] if g in fixed else self.rng.random() < p)]
