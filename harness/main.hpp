// main.hpp - operation loop; included at the end of every generated translation unit
#pragma once
#ifndef H_CFG
#error "H_CFG must name the configuration traits type"
#endif
int main(int argc, char** argv) {
  typedef Def<H_CFG> D;
  D::fill_ids();
  H::fill_paths();
  if (argc > 1 && std::string(argv[1]) == "--ids") {
    for (auto& kv : H::idmap()) {
      std::printf("IDS %s", kv.first.c_str());
      for (int i : kv.second) std::printf(" %d", i);
      std::printf("\n");
    }
    return 0;
  }
  auto fsm_p = std::make_unique<typename D::M_r>();
  std::string line;
  while (std::getline(std::cin, line)) {
    if (line.empty()) continue;
    std::istringstream is(line);
    std::string op; is >> op;
    int ty = 0, pay = 0;
    std::string tok;
    if (op == "P" || op == "Q") { is >> ty >> pay; }
    is >> tok;  // the first '|'
    H::parse_val(is);
    H::parse_plan(is);
    H::cbn() = 0;
    try {
      typename D::M_r& fsm = *fsm_p;
      if (op == "RESET") { fsm_p = std::make_unique<typename D::M_r>(); }
      else if (op == "S") fsm.start();
      else if (op == "T") fsm.stop();
      else if (op == "P") { int r = H::process(fsm, ty, pay); std::printf("R %d\n", r); }
      else if (op == "Q") H::enqueue(fsm, ty, pay);
      else if (op == "D") H_CFG::drain(fsm, 0);
      else if (op == "D1") H_CFG::drain(fsm, 1);
      else { std::printf("HARNESS-ERROR unknown op %s\n", op.c_str()); return 2; }
    } catch (H::harness_error& e) {
      std::printf("HARNESS-ERROR %s\n", e.what()); return 2;
    } catch (std::exception&) {
      std::printf("ESC\n");
    }
    D::snap_r(*fsm_p);
#define X(N) std::printf("FLAG %d or=%d and=%d\n", N, (int)H_CFG::template flag_or<Flag<N>>(*fsm_p), (int)H_CFG::template flag_and<Flag<N>>(*fsm_p));
    H_FLAGS(X)
#undef X
    std::printf("--\n");
    std::fflush(stdout);
  }
  return 0;
}
