// main.hpp - operation loop; included at the end of every generated translation unit
#pragma once
#ifndef H_CFG
#error "H_CFG must name the configuration traits type"
#endif
namespace H {
template <class F> std::string flag_bits(F& f) {
  std::string s;
#define X(N) s += H_CFG::template flag_or<Flag<N>>(f) ? '1' : '0';
  H_FLAGS(X)
#undef X
  return s;
}
}
#ifdef H_SERIALIZE
#include <boost/archive/text_oarchive.hpp>
#include <boost/archive/text_iarchive.hpp>
#include <boost/archive/binary_oarchive.hpp>
#include <boost/archive/binary_iarchive.hpp>
#endif
int main(int argc, char** argv) {
  typedef Def<H_CFG> D;
  typedef typename D::M_r M;
  D::fill_ids();
  H::fill_paths();
  if (argc > 1 && std::string(argv[1]) == "--ids") {
    for (auto& kv : H::idmap()) {
      std::printf("IDS %s", kv.first.c_str());
      for (int i : kv.second) std::printf(" %d", i);
      std::printf("\n");
    }
    return 0;
  }
  std::unique_ptr<M> objs[4];
  objs[0] = std::make_unique<M>(); D::caps_r(*objs[0]);
  std::string line;
  while (std::getline(std::cin, line)) {
    if (line.empty()) continue;
    std::istringstream is(line);
    std::string op; is >> op;
    int target = 0;
    if (op[0] == '@') { target = std::atoi(op.c_str() + 1); is >> op; }
    int ty = 0, pay = 0, dst = 0, src = 0;
    std::string tok;
    if (op == "P" || op == "Q") { is >> ty >> pay; }
    if (op == "COPY" || op == "ASSIGN" || op == "MOVE" || op == "SAVELOAD") { is >> dst >> src; }
    is >> tok;  // the first '|'
    H::parse_val(is);
    H::parse_plan(is);
    H::cbn() = 0;
    try {
      if (op == "RESET") { objs[target] = std::make_unique<M>(); D::caps_r(*objs[target]); }
      else if (op == "COPY") { objs[dst] = std::make_unique<M>(static_cast<const M&>(*objs[src])); }
      else if (op == "ASSIGN") { *objs[dst] = static_cast<const M&>(*objs[src]); }
#ifdef H_MP11
      else if (op == "MOVE") { objs[dst] = std::make_unique<M>(std::move(*objs[src])); }
#endif
#ifdef H_SERIALIZE
      else if (op == "SAVELOAD") {
        std::stringstream ss;
        { boost::archive::text_oarchive oa(ss); oa << static_cast<const M&>(*objs[src]); }
        objs[dst] = std::make_unique<M>(); D::caps_r(*objs[dst]);
        { boost::archive::text_iarchive ia(ss); ia >> *objs[dst]; }
        // the binary format must give the same object: loaded into a scratch object and compared by its snapshot below
        std::stringstream sb;
        { boost::archive::binary_oarchive ob(sb); ob << static_cast<const M&>(*objs[src]); }
        auto scratch = std::make_unique<M>();
        { boost::archive::binary_iarchive ib(sb); ib >> *scratch; }
        std::printf("#BINARY-SNAP-BEGIN\n"); D::snap_r(*scratch, "#SNAPB"); D::data_r(*scratch, "B"); std::printf("#BINARY-SNAP-END\n");
      }
#endif
      else {
        M& fsm = *objs[target];
        if (op == "S") fsm.start();
        else if (op == "T") fsm.stop();
        else if (op == "P") { int r = H::process(fsm, ty, pay); std::printf("R %d\n", r); }
        else if (op == "Q") H::enqueue(fsm, ty, pay);
        else if (op == "D") H_CFG::drain(fsm, 0);
        else if (op == "D1") H_CFG::drain(fsm, 1);
        else { std::printf("HARNESS-ERROR unknown op %s\n", op.c_str()); return 2; }
      }
    } catch (H::harness_error& e) {
      std::printf("HARNESS-ERROR %s\n", e.what()); return 2;
    } catch (std::exception&) {
      std::printf("ESC\n");
    }
    for (int k = 0; k < 4; ++k) {
      if (!objs[k]) continue;
      std::string tag = k == 0 ? "SNAP" : ("SNAP@" + std::to_string(k));
      D::snap_r(*objs[k], tag.c_str());
      D::data_r(*objs[k], std::to_string(k).c_str());
      if (k == 0) {
#define X(N) std::printf("FLAG %d or=%d and=%d\n", N, (int)H_CFG::template flag_or<Flag<N>>(*objs[0]), (int)H_CFG::template flag_and<Flag<N>>(*objs[0]));
        H_FLAGS(X)
#undef X
      }
    }
    std::printf("--\n");
    std::fflush(stdout);
  }
  return 0;
}
