#!/usr/bin/env python3
"""mkcorpus.py - writes the hand-designed corpus machines (corpus/*.json): shapes aimed at the case splits of the
proofs and of the library's table construction, which random generation hits only rarely."""
import itertools, json, os, sys
sys.path.insert(0, os.path.dirname(os.path.abspath(__file__)))
from msmgen import row, state, machine, mdef, walk, all_rows

VERIF = os.path.dirname(os.path.dirname(os.path.abspath(__file__)))

def guards_of(md):
    return [r["id"] for _, m in walk(md["root"]) for r in all_rows(m) if r["guard"]]

def all_valuations(gids, limit=64):
    vals = []
    for k in range(len(gids) + 1):
        for c in itertools.combinations(gids, k):
            vals.append(list(c))
    return vals[:limit]

def save(name, md, opss, cfgs=None, note=""):
    # one operation list per machine: the sequences are separated by a reset of the machine object
    joined = []
    for ops in opss:
        if joined:
            joined.append(("reset",))
        joined += ops
    d = {"md": md, "ops": [joined], "note": note}
    if cfgs:
        d["cfgs"] = cfgs
    json.dump(d, open(os.path.join(VERIF, "corpus", name + ".json"), "w"))

def fwd_machines():
    """the event e5 occurs, inside the submachine under state 1, at exactly one place; the enclosing machine has a
    guarded row on e5 from the submachine state; e6 leaves and re-enters"""
    out = []
    def build(place):
        leaf_rows, leaf_irows, leaf_sirows = [row(30, 0, 7, 1), row(31, 1, 7, 0)], [], []
        mid_rows, mid_irows, mid_sirows = [row(20, 0, 7, 1), row(21, 1, 7, 0)], [], []
        if place == "sub.table":
            mid_rows.append(row(22, 0, 5, 1, guard=True, act="call"))
        elif place == "sub.table.internal":
            mid_rows.append(row(22, 0, 5, "none", guard=True, act="call"))
        elif place == "sub.irows":
            mid_irows.append(row(22, 0, 5, "none", guard=True, act="call"))
        elif place == "sub.sirows":
            mid_sirows.append(row(22, 0, 5, "none", guard=True, act="call"))
        elif place == "subsub.table":
            leaf_rows.append(row(32, 0, 5, 1, guard=True, act="call"))
        elif place == "subsub.irows":
            leaf_irows.append(row(32, 0, 5, "none", guard=True, act="call"))
        elif place == "subsub.sirows":
            leaf_sirows.append(row(32, 0, 5, "none", guard=True, act="call"))
        elif place == "nowhere":
            pass
        leaf = machine([state(sirows=leaf_sirows), state()], [0], leaf_rows, leaf_irows)
        deep = place.startswith("subsub")
        mid_states = [state(sirows=mid_sirows), state(sub=leaf)] if deep else [state(sirows=mid_sirows), state()]
        if deep:
            mid_rows = [row(20, 0, 7, 1), row(21, 1, 8, 0)] + mid_rows[2:]
        mid = machine(mid_states, [0], mid_rows, mid_irows)
        root = machine([state(), state(sub=mid), state()], [0],
                       [row(1, 0, 4, 1), row(2, 1, 5, 2, guard=True, act="call"), row(3, 2, 6, 1), row(4, 1, 6, 0)])
        return mdef(root, 6)
    for place in ["sub.table", "sub.table.internal", "sub.irows", "sub.sirows", "subsub.table", "subsub.irows",
                  "subsub.sirows", "nowhere"]:
        md = build(place)
        gids = guards_of(md)
        opss = []
        for val in all_valuations(gids):
            ops = [("start", [], []), ("process", 4, 1, val, [])]
            if place.startswith("subsub"):
                ops.append(("process", 7, 2, val, []))          # move the submachine into its sub-submachine
            ops += [("process", 5, 3, val, []), ("process", 5, 4, val, []), ("process", 6, 5, val, []),
                    ("process", 5, 6, val, []), ("process", 9, 7, val, [])]
            opss.append(ops)
        out.append(("fwd_" + place.replace(".", "_"), md, opss))
    return out

def ortho_machines():
    """2-3 regions, a submachine with two regions, conflicting rows; all guard valuations of the rows reachable per event:
    exercises every combination of result codes across regions and levels"""
    sub = machine([state(zone=0), state(zone=0), state(zone=1), state(zone=1)], [0, 2],
                  [row(10, 0, 4, 1, guard=True, act="call"), row(11, 2, 4, 3, guard=True, act="call"),
                   row(12, 1, 5, 0), row(13, 3, 5, 2), row(14, 0, 4, 1, guard=True)],
                  irows=[row(15, 0, 4, "none", guard=True, act="call")])
    root = machine([state(sub=sub, zone=0), state(zone=0), state(zone=1), state(zone=1)], [0, 2],
                   [row(1, 0, 4, 1, guard=True, act="call"), row(2, 1, 5, 0), row(3, 2, 4, 3, guard=True), row(4, 3, 5, 2),
                    row(5, 2, 4, "none", guard=True, act="call")],
                   irows=[row(6, 0, 4, "none", guard=True)])
    md = mdef(root, 3)
    gids = guards_of(md)
    opss = []
    for val in all_valuations(gids, 256):
        opss.append([("start", [], []), ("process", 4, 1, val, []), ("process", 5, 2, val, []), ("process", 4, 3, val, []),
                     ("process", 6, 4, val, [])])
    return [("ortho_codes", md, opss)]

def defer_code_machines():
    """a submachine with two regions: one active state defers e4, the other has a guarded row on e4; the enclosing machine
    has a guarded row on e4 from the submachine state: the submachine answers DEFERRED, DEFERRED|GUARD_REJECT or
    DEFERRED|TRUE and the enclosing row must not be tried in any of them (all valuations)"""
    sub = machine([state(zone=0, defers=[4]), state(zone=0), state(zone=1), state(zone=1)], [0, 2],
                  [row(10, 0, 5, 1), row(11, 2, 4, 3, guard=True, act="call"), row(12, 1, 5, 0), row(13, 3, 5, 2),
                   row(14, 1, 4, 0, act="call")])
    root = machine([state(sub=sub, zone=0), state(zone=0)], [0],
                   [row(1, 0, 4, 1, guard=True, act="call"), row(2, 1, 5, 0), row(3, 0, 6, 1, act="call")])
    md = mdef(root, 3)
    opss = []
    for val in all_valuations(guards_of(md), 16):
        opss.append([("start", [], []), ("process", 4, 1, val, []), ("process", 5, 2, val, []), ("process", 4, 3, val, []),
                     ("process", 5, 4, val, []), ("process", 6, 5, val, [])])
    return [("defer_codes", md, opss)]

def defer_ortho_reject_machines():
    """deferral at the root next to an orthogonal region: Waiting defers e4 and leaves on e6; the other region has a
    guarded row on e6.  Whatever that guard answers (handled alone, or handled together with a guard rejection in the
    other region) the stored occurrences of e4 must be re-offered right after e6, in arrival order, before the next
    event (all valuations; two stored occurrences)"""
    root = machine([state(zone=0, defers=[4]), state(zone=0), state(zone=1), state(zone=1)], [0, 2],
                   [row(10, 0, 6, 1, act="call"), row(11, 1, 4, "none", act="call"), row(12, 1, 5, 0, act="call"),
                    row(13, 2, 6, 3, guard=True, act="call"), row(14, 3, 6, 2, guard=True, act="call")])
    md = mdef(root, 3)
    opss = []
    for val in all_valuations(guards_of(md), 8):
        opss.append([("start", [], []), ("process", 4, 1, val, []), ("process", 4, 2, val, []), ("process", 6, 3, val, []),
                     ("process", 4, 4, val, []), ("process", 5, 5, val, []), ("process", 4, 6, val, []), ("process", 6, 7, val, [])])
    return [("defer_ortho_reject", md, opss)]

def defer_action_machines():
    """row-level deferral (the Defer functor action) inside a submachine and at the root: the deferring rows leave from
    Busy; Ready handles the events; one occurrence per event type plus two of one type"""
    sub = machine([state(), state()], [0],
                  [row(10, 0, 6, 1, act="call"), row(11, 0, 4, "none", act="defer"), row(12, 0, 5, "none", act="defer"),
                   row(13, 1, 4, "none", act="call"), row(14, 1, 5, "none", act="call"), row(15, 1, 6, 0, act="call")])
    root = machine([state(sub=sub), state()], [0], [row(1, 0, 7, 1, act="call"), row(2, 1, 7, 0, act="call")])
    md = mdef(root, 4)
    opss = [[("start", [], []), ("process", 4, 1, [], []), ("process", 5, 2, [], []), ("process", 6, 3, [], []),
             ("process", 4, 4, [], []), ("process", 6, 5, [], []), ("process", 5, 6, [], []), ("process", 6, 7, [], [])],
            [("start", [], []), ("process", 4, 1, [], []), ("process", 7, 2, [], []), ("process", 7, 3, [], []),
             ("process", 6, 4, [], [])]]
    flat = machine([state(), state()], [0],
                   [row(10, 0, 6, 1, act="call"), row(11, 0, 4, "none", act="defer"), row(12, 0, 5, "none", act="defer"),
                    row(13, 1, 4, "none", act="call"), row(14, 1, 5, "none", act="call"), row(15, 1, 6, 0, act="call")])
    return [("defer_action_sub", md, opss), ("defer_action_root", mdef(flat, 4), [opss[0]])]

def base_event_machines():
    """event hierarchy e4 <- e5 <- e6 (e6 derives from e5 derives from e4).  The innermost machine reacts to the derived
    events only through rows on a base class; the exact types occur nowhere below the outermost machine: the event must
    still be offered to the submachines (depth 2 and 3), and the outer fallback row runs only if nothing was taken inside"""
    out = []
    for name, depth in (("base_forward_2", 2), ("base_forward_3", 3)):
        inner = machine([state(), state()], [0],
                        [row(30, 0, 4, 1, act="call"), row(31, 1, 5, 0, act="call"), row(32, 1, 4, "none", guard=True, act="call")])
        mid = machine([state(sub=inner), state()], [0], [row(20, 0, 7, 1), row(21, 1, 7, 0)])
        top_sub = mid if depth == 3 else inner
        root = machine([state(sub=top_sub), state()], [0], [row(1, 0, 6, 1, guard=True, act="call"), row(2, 1, 7, 0, act="call")])
        md = mdef(root, 4, parents={5: 4, 6: 5})
        opss = []
        for val in ([], [1], [32], [1, 32]):
            opss.append([("start", [], []), ("process", 6, 1, val, []), ("process", 6, 2, val, []), ("process", 5, 3, val, []),
                         ("process", 4, 4, val, []), ("process", 6, 5, val, []), ("process", 7, 6, val, []), ("process", 6, 7, val, [])])
        out.append((name, md, opss))
    return out

def block_machines():
    """a region enters a terminate / interrupt state on an event to which later regions react as well"""
    out = []
    term = machine([state(zone=0), state(kind="term", zone=0), state(zone=1), state(zone=1), state(zone=2), state(zone=2)], [0, 2, 4],
                   [row(1, 0, 4, 1, act="call"), row(2, 2, 4, 3, guard=True, act="call"), row(3, 4, 4, 5, act="call"),
                    row(4, 3, 5, 2), row(5, 5, 5, 4)])
    md = mdef(term, 3)
    opss = [[("start", [], []), ("process", 4, 1, val, []), ("process", 5, 2, val, []), ("process", 4, 3, val, [])] for val in ([], [2])]
    out.append(("ortho_terminate", md, opss))
    intr = machine([state(zone=0), state(kind=["intr", 6], zone=0), state(zone=1), state(zone=1)], [0, 2],
                   [row(1, 0, 4, 1, act="call"), row(2, 1, 6, 0, act="call"), row(3, 2, 4, 3, guard=True, act="call"),
                    row(4, 3, 5, 2, act="call"), row(5, 3, 6, 2, act="call")])
    md = mdef(intr, 4)
    opss = [[("start", [], []), ("process", 4, 1, val, []), ("process", 5, 2, val, []), ("process", 6, 3, val, []),
             ("process", 5, 4, val, []), ("process", 4, 5, val, [])] for val in ([], [3])]
    out.append(("ortho_interrupt", md, opss))
    # one event makes region 0 terminate and region 1 interrupted: the end-interrupt event must stay blocked
    both = machine([state(zone=0), state(kind="term", zone=0), state(zone=1), state(kind=["intr", 6, 7], zone=1), state(zone=2), state(zone=2)], [0, 2, 4],
                   [row(1, 0, 4, 1, act="call"), row(2, 2, 4, 3, act="call"), row(3, 3, 6, 2, act="call"), row(4, 3, 7, 2, guard=True, act="call"),
                    row(5, 4, 6, 5, act="call"), row(6, 5, 5, 4)])
    md = mdef(both, 4)
    opss = [[("start", [], []), ("process", 4, 1, val, []), ("process", 6, 2, val, []), ("process", 7, 3, val, []),
             ("process", 5, 4, val, []), ("process", 6, 5, val, [])] for val in ([], [4])]
    out.append(("ortho_terminate_and_interrupt", md, opss))
    # while region 1 is interrupted (resp. terminated), region 0's active state lists e7 as deferred: e7 must be swallowed,
    # not stored - it may not come back after the interrupt ended and the deferring state was left
    for name, kind in (("interrupt_defer", ["intr", 6]), ("terminate_defer", "term")):
        m = machine([state(zone=0, defers=[7]), state(zone=0), state(zone=1), state(kind=kind, zone=1)], [0, 2],
                    [row(1, 0, 5, 1, act="call"), row(2, 1, 7, "none", act="call"), row(3, 1, 5, 0, act="call"),
                     row(4, 2, 4, 3, act="call")] + ([row(5, 3, 6, 2, act="call")] if kind != "term" else []))
        md = mdef(m, 4)
        opss = [[("start", [], []), ("process", 7, 1, [], []), ("process", 4, 2, [], []), ("process", 7, 3, [], []),
                 ("process", 6, 4, [], []), ("process", 5, 5, [], []), ("process", 7, 6, [], []), ("process", 5, 7, [], [])],
                [("start", [], []), ("process", 4, 1, [], []), ("process", 7, 2, [], []), ("process", 7, 3, [], []),
                 ("process", 6, 4, [], []), ("process", 5, 5, [], [])]]
        out.append((name, md, opss))
    return out

def pseudo_machines():
    sub = machine([state(), state(), state(kind=["exitpt", 6])], [0], [row(10, 0, 5, 1), row(11, 1, 7, 2, act="call")])
    root = machine([state(), state(sub=sub)], [0], [row(1, 0, 4, 1), row(2, 1, 6, 0, act="call", exitpt=2)])
    md = mdef(root, 4)
    ops = [("start", [], []), ("process", 4, 1, [], []), ("process", 6, 2, [], []), ("process", 5, 3, [], []),
           ("process", 6, 4, [], []), ("process", 7, 5, [], [])]
    out = [("exitpt_outside", md, [ops])]
    # the enclosing machine's only row on e6 leaves through an exit point; inside, the row on e6 is guarded: with the guard
    # false the call must answer "guard rejected" (no no_transition) although the enclosing row is not enabled; a second
    # region of the enclosing machine stays idle
    sub = machine([state(), state(), state(kind=["exitpt", 6])], [0],
                  [row(10, 0, 5, 1), row(11, 1, 6, 2, guard=True, act="call"), row(12, 1, 7, "none", guard=True, act="call")])
    root = machine([state(zone=0), state(sub=sub, zone=0), state(zone=1)], [0, 2],
                   [row(1, 0, 4, 1), row(2, 1, 6, 0, act="call", exitpt=2), row(3, 1, 7, 0, guard=True, act="call")])
    md = mdef(root, 4)
    opss = []
    for val in ([], [11], [12], [3], [3, 12]):
        opss.append([("start", [], []), ("process", 4, 1, val, []), ("process", 6, 2, val, []), ("process", 5, 3, val, []),
                     ("process", 7, 4, val, []), ("process", 6, 5, val, []), ("process", 6, 6, val, []), ("process", 5, 7, val, [])])
    out.append(("exitpt_codes", md, opss))
    # a one-region machine around a three-region submachine with one exit point per region: leaving through each of them
    sub = machine([state(zone=0), state(kind=["exitpt", 6], zone=0), state(zone=1), state(kind=["exitpt", 8], zone=1),
                   state(zone=2), state(kind=["exitpt", 10], zone=2)], [0, 2, 4],
                  [row(10, 0, 5, 1, act="call"), row(11, 2, 7, 3, act="call"), row(12, 4, 9, 5, act="call")])
    root = machine([state(), state(sub=sub)], [0],
                   [row(1, 0, 4, 1), row(2, 1, 6, 0, act="call", exitpt=1), row(3, 1, 8, 0, act="call", exitpt=3),
                    row(4, 1, 10, 0, act="call", exitpt=5)])
    md = mdef(root, 8)
    opss = []
    for trig, other in ((5, 8), (7, 10), (9, 6)):
        opss.append([("start", [], []), ("process", 4, 1, [], []), ("process", other, 2, [], []), ("process", trig, 3, [], []),
                     ("process", 4, 4, [], []), ("process", trig, 5, [], [])])
    out.append(("exitpt_regions", md, opss))
    return out

def fork_machines():
    """a fork that names two of three regions; the third region must follow the history policy on every re-entry"""
    out = []
    for hname, hist in (("none", "none"), ("shallow_other", ["shallow", 7]), ("shallow_fork", ["shallow", 4]), ("always", "always")):
        a1 = state(zone=0); a1["explicit"] = True
        b1 = state(zone=1); b1["explicit"] = True
        sub = machine([state(zone=0), a1, state(zone=1), b1, state(zone=2), state(zone=2)], [0, 2, 4],
                      [row(10, 0, 5, 1), row(11, 2, 5, 3), row(12, 4, 7, 5, act="call"), row(13, 5, 7, 4), row(14, 1, 5, 0), row(15, 3, 5, 2)],
                      hist=hist)
        root = machine([state(), state(sub=sub)], [0],
                       [row(1, 0, 4, ["direct", 1, [1, 3]], act="call"), row(2, 1, 6, 0), row(3, 0, 8, 1), row(4, 0, 9, ["direct", 1, [1]])])
        md = mdef(root, 6)
        ops = [("start", [], []), ("process", 4, 1, [], []), ("process", 7, 2, [], []), ("process", 6, 3, [], []),
               ("process", 4, 4, [], []), ("process", 6, 5, [], []), ("process", 8, 6, [], []), ("process", 7, 7, [], []),
               ("process", 6, 8, [], []), ("process", 9, 9, [], []), ("process", 6, 10, [], []), ("process", 4, 11, [], [])]
        out.append(("fork_partial_" + hname, md, [ops]))
    # the same shape with explicit_entry<> (no region index): back infers the region of the named states from the
    # table (backmp11 requires the index)
    a1 = state(zone=0); a1["explicit"] = True; a1["explicit_auto"] = True
    b1 = state(zone=1); b1["explicit"] = True; b1["explicit_auto"] = True
    sub = machine([state(zone=0), a1, state(zone=1), b1, state(zone=2), state(zone=2)], [0, 2, 4],
                  [row(10, 0, 5, 1), row(11, 2, 5, 3), row(12, 4, 7, 5, act="call"), row(13, 5, 7, 4), row(14, 1, 5, 0), row(15, 3, 5, 2)])
    root = machine([state(), state(sub=sub)], [0],
                   [row(1, 0, 4, ["direct", 1, [1, 3]], act="call"), row(2, 1, 6, 0), row(3, 0, 8, 1), row(4, 0, 9, ["direct", 1, [1]]),
                    row(5, 0, 7, ["direct", 1, [3]])])
    md = mdef(root, 6)
    ops = [("start", [], []), ("process", 9, 1, [], []), ("process", 5, 2, [], []), ("process", 6, 3, [], []),
           ("process", 7, 4, [], []), ("process", 5, 5, [], []), ("process", 6, 6, [], []), ("process", 4, 7, [], []),
           ("process", 7, 8, [], []), ("process", 6, 9, [], []), ("stop", [])]
    out.append(("fork_auto_region", md, [ops], ["back", "back_fct"]))      # back11: the inference does not compile with Fusion tables
    return out

def explicit_completion_machines():
    """explicit entry (into a one-region submachine) and a fork naming a state in every region, the entered states having
    completion transitions: they fire right after the entry, before the next event (one guarded, one chain)"""
    mid = state(zone=0); mid["explicit"] = True
    sub1 = machine([state(zone=0), mid, state(zone=0), state(zone=0)], [0],
                   [row(10, 1, "none", 2, guard=True, act="call"), row(11, 2, "none", 3, act="call"), row(12, 0, 5, 1), row(13, 3, 5, 0)])
    a1 = state(zone=0); a1["explicit"] = True
    b1 = state(zone=1); b1["explicit"] = True
    sub2 = machine([state(zone=0), a1, state(zone=0), state(zone=1), b1, state(zone=1)], [0, 3],
                   [row(20, 1, "none", 2, act="call"), row(21, 4, "none", 5, guard=True, act="call"), row(22, 0, 5, 1), row(23, 3, 5, 4)])
    root = machine([state(), state(sub=sub1), state(sub=sub2)], [0],
                   [row(1, 0, 4, ["direct", 1, [1]], act="call"), row(2, 1, 6, 0), row(3, 0, 7, ["direct", 2, [1, 4]], act="call"), row(4, 2, 6, 0),
                    row(5, 0, 8, 1), row(6, 0, 9, ["direct", 2, [1]])])
    md = mdef(root, 6)
    opss = []
    for val in ([10, 21], [], [10], [21]):
        opss.append([("start", [], []), ("process", 4, 1, val, []), ("process", 5, 2, val, []), ("process", 6, 3, val, []),
                     ("process", 7, 4, val, []), ("process", 5, 5, val, []), ("process", 6, 6, val, []),
                     ("process", 9, 7, val, []), ("process", 6, 8, val, []), ("process", 8, 9, val, []), ("process", 5, 10, val, [])])
    return [("explicit_completion", md, opss)]

def completion_ortho_defer_machines():
    """a completion transition next to an orthogonal region that defers the very event: region 0 takes A1 -e4-> A2 and A2
    has a completion row to A3; region 1's active state B1 defers e4 (result of the step: handled and deferred at once).
    The completion transition fires right after A2 was entered, before the next event; the stored e4 is offered again
    when B1 is left"""
    root = machine([state(zone=0), state(zone=0), state(zone=0), state(zone=1, defers=[4]), state(zone=1)], [0, 3],
                   [row(10, 0, 4, 1, act="call"), row(11, 1, "none", 2, act="call"), row(12, 2, 6, 0, act="call"),
                    row(13, 3, 5, 4, act="call"), row(14, 4, 4, "none", act="call"), row(15, 4, 6, 3, act="call")])
    md = mdef(root, 3)
    opss = [[("start", [], []), ("process", 4, 1, [], []), ("process", 5, 2, [], []), ("process", 6, 3, [], []),
             ("process", 4, 4, [], []), ("process", 4, 5, [], []), ("process", 5, 6, [], [])]]
    return [("completion_ortho_defer", md, opss)]

def defer_completion_order_machines():
    """deferred events of two types around a completion transition (seeded C05e): Idle defers e4 and e5, Armed defers e4
    only; stored in the order e4(1) e5(2) e4(3); e6 takes Idle to Armed: e4(1) is offered and deferred again, e5(2) is
    consumed (Armed -> Warmup, completion to Ready), and only then are e4(1) and e4(3) offered to Ready - in arrival
    order. The second machine does the same with a chain of two completion transitions and a third stored e4"""
    out = []
    for name, chain in (("defer_completion_order", 1), ("defer_completion_order_chain", 2)):
        sts = [state(defers=[4, 5]), state(defers=[4]), state(), state()] + ([state()] if chain == 2 else [])
        rows = [row(10, 0, 6, 1), row(11, 1, 5, 2), row(12, 2, "none", 3, act="call"), row(13, 3, 4, "none", act="call")]
        if chain == 2:
            rows = [row(10, 0, 6, 1), row(11, 1, 5, 2), row(12, 2, "none", 4, act="call"), row(14, 4, "none", 3, act="call"),
                    row(13, 3, 4, "none", act="call")]
        md = mdef(machine(sts, [0], rows), 3)
        ops = [("start", [], []), ("process", 4, 1, [], []), ("process", 5, 2, [], []), ("process", 4, 3, [], [])]
        if chain == 2:
            ops.append(("process", 4, 4, [], []))
        ops += [("process", 6, 5, [], []), ("process", 4, 6, [], [])]
        out.append((name, md, [ops]))
    return out

def root_history_machines():
    """a history policy on the outermost machine and a restart (seeded C03e): back / back11 apply their history policy
    only when a machine is entered as a submachine - start() after stop() begins in the initial states again and enters
    exactly those; what current_state / get_state_by_id / the visitors report must be the states that were entered"""
    out = []
    for name, hist in (("root_history_restart_always", "always"), ("root_history_restart_shallow", ["shallow", 4])):
        root = machine([state(zone=0), state(zone=0), state(zone=1), state(zone=1)], [0, 2],
                       [row(1, 0, 4, 1, act="call"), row(2, 1, 4, 0, act="call"), row(3, 2, 5, 3, act="call"), row(4, 3, 5, 2, act="call")],
                       hist=hist)
        md = mdef(root, 2)
        ops = [("start", [], []), ("process", 4, 1, [], []), ("process", 5, 2, [], []), ("stop", []), ("start", [], []),
               ("process", 4, 3, [], []), ("process", 5, 4, [], []), ("stop", []), ("start", [], []), ("process", 5, 5, [], [])]
        out.append((name, md, [ops], ["back", "back_fct", "back11"]))
    return out

def flag_machines():
    """a flag carried only by a substate of a submachine; the enclosing machine leaves the submachine by a row with an
    action into a flagged simple state: what is_flag_active answers inside the action and the target's entry must follow
    the id the machine reports at that moment (source: the submachine's configuration still counts)"""
    sub = machine([state(), state(flags=[0])], [0], [row(10, 0, 5, 1, act="call"), row(11, 1, 5, 0)])
    root = machine([state(), state(sub=sub, flags=[1]), state(flags=[2])], [0],
                   [row(1, 0, 4, 1, act="call"), row(2, 1, 6, 2, guard=True, act="call"), row(3, 2, 6, 0, act="call"), row(4, 1, 7, 2)])
    md = mdef(root, 4)
    ops = [("start", [], []), ("process", 4, 1, [2], []), ("process", 5, 2, [2], []), ("process", 6, 3, [2], []), ("process", 6, 4, [2], []),
           ("process", 4, 5, [2], []), ("process", 5, 6, [2], []), ("process", 7, 7, [2], []), ("process", 6, 8, [2], [])]
    return [("flags_leaving_sub", md, [ops])]

def throw_machines():
    """every behaviour position of a step (including the completion transitions it triggers and the behaviours of a
    submachine entered by it) as the throw point, each followed by the same continuation"""
    out = []
    sub = machine([state(), state()], [0], [row(20, 0, 5, 1, guard=True, act="call"), row(21, 1, "none", 0, guard=True, act="call")])
    root = machine([state(), state(), state(), state(sub=sub), state()], [0],
                   [row(1, 0, 4, 1, guard=True, act="call"), row(2, 1, "none", 2, guard=True, act="call"), row(3, 1, 5, 4, act="call"),
                    row(4, 2, 5, 3, act="call"), row(5, 3, 6, 0, act="call"), row(6, 4, 6, 0), row(7, 2, "none", 2, guard=True)])
    md = mdef(root, 4)
    val = [1, 2, 20, 21]
    opss = []
    for k in range(0, 9):
        for first in (4, 5):
            ops = [("start", [], []), ("process", 4, 1, val, [(k, ("throw",))] if first == 4 else []),
                   ("process", 5, 2, val, [(k, ("throw",))] if first == 5 else []), ("process", 5, 3, val, []),
                   ("process", 6, 4, val, []), ("process", 4, 5, val, []), ("process", 5, 6, val, [])]
            opss.append(ops)
    out.append(("throw_positions", md, opss))
    # the same step with a throw at position k; exception_caught (the next behaviour invocation) submits an event, with
    # fsm.process_event or enqueue_event; in a third variant the behaviour before the throw has already submitted one:
    # both must be stored while the step is aborted and dispatched afterwards, oldest first
    opss = []
    for k in range(0, 8):
        for how in ("proc", "enq"):
            for earlier in (False, True):
                if earlier and k == 0:
                    continue
                plan = ([(k - 1, ("proc", 6, 40 + k))] if earlier else []) + [(k, ("throw",)), (k + 1, (how, 5, 50 + k))]
                ops = [("start", [], []), ("process", 4, 1, val, plan), ("process", 5, 2, val, []), ("process", 6, 3, val, []),
                       ("process", 4, 4, val, [])]
                opss.append(ops)
    out.append(("throw_then_submit", md, opss))
    return out

def throw_in_pool_machines():
    """a stored event is dispatched from the queue / pool, takes a transition in region 0 and throws in region 1; an older
    occurrence deferred by the state region 0 just left is pending before it, a younger one behind it: after the
    contained exception the older one must be offered first"""
    m = machine([state(zone=0, defers=[7]), state(zone=0), state(zone=0), state(zone=0), state(zone=0), state(zone=1), state(zone=1)], [0, 5],
                [row(1, 0, 4, 1), row(2, 1, 7, 2, act="call"), row(3, 1, 5, 3, act="call"), row(4, 2, 5, 4, act="call"), row(5, 4, 6, 0, act="call"),
                 row(6, 5, 4, 6, act="call"), row(7, 6, 6, 5)])
    md = mdef(m, 4)
    opss = []
    for k in (1, 2, 3, 4):
        opss.append([("start", [], []), ("process", 7, 1, [], []), ("enqueue", 4, 2), ("enqueue", 5, 3), ("drain", [], [(k, ("throw",))]),
                     ("process", 6, 4, [], []), ("process", 7, 5, [], [])])
    return [("throw_in_pool", md, opss)]

def throw_nested_machines():
    """a throw at every behaviour position of a step that enters a submachine (front-end on_entry of the submachine,
    entries of its initial states - two regions - and of the sub-submachine in region 1), then events for the
    submachine: it must react to them at once (not wedged), whatever active-state-switch policy is configured"""
    leaf = machine([state(), state()], [0], [row(30, 0, 5, 1, act="call"), row(31, 1, 5, 0)])
    sub = machine([state(), state(), state(sub=leaf), state()], [0, 2],
                  [row(20, 0, 5, 1, act="call"), row(21, 1, 5, 0, act="call"), row(22, 2, 7, 3), row(23, 3, 7, 2)])
    root = machine([state(), state(sub=sub)], [0], [row(1, 0, 4, 1, act="call"), row(2, 1, 6, 0, act="call")])
    md = mdef(root, 4)
    opss = []
    for k in range(0, 9):
        opss.append([("start", [], []), ("process", 4, 1, [], [(k, ("throw",))]), ("process", 5, 2, [], []), ("process", 7, 3, [], []),
                     ("process", 5, 4, [], []), ("process", 6, 5, [], []), ("process", 4, 6, [], []), ("process", 5, 7, [], []),
                     ("process", 7, 8, [], [])])
    # the same with a throw during start()
    for k in range(0, 3):
        opss.append([("start", [], [(k, ("throw",))]), ("process", 4, 1, [], []), ("process", 5, 2, [], []), ("process", 6, 3, [], []),
                     ("process", 4, 4, [], [])])
    return [("throw_nested_entry", md, opss)]

def copy_history_machines():
    """a submachine with each history policy is left from a non-initial substate; the machine is then copied / assigned /
    moved / saved+loaded while that submachine is inactive, and original and duplicate re-enter it (through the history
    event and through another event) and continue"""
    out = []
    for hname, hist in (("none", "none"), ("always", "always"), ("shallow", ["shallow", 4])):
        sub = machine([state(), state(), state()], [0], [row(20, 0, 5, 1, act="call"), row(21, 1, 5, 2, act="call"), row(22, 2, 5, 0, act="call")], hist=hist)
        inner2 = machine([state(), state()], [0], [row(30, 0, 5, 1), row(31, 1, 5, 0)], hist=hist)
        root = machine([state(), state(sub=sub), state(sub=inner2)], [0],
                       [row(1, 0, 4, 1, act="call"), row(2, 1, 6, 0, act="call"), row(3, 0, 7, 1, act="call"),
                        row(4, 0, 8, 2), row(5, 2, 6, 0)])
        md = mdef(root, 5)
        def P(k, e, pay):
            return ("on", k, ("process", e, pay, [], []))
        for mode in ("copy", "assign", "move", "saveload"):
            opss = []
            for nsteps in (1, 2):
                for reenter in (4, 7):
                    ops = [("start", [], []), P(0, 4, 1)] + [P(0, 5, 2 + i) for i in range(nsteps)] + [P(0, 6, 5)]
                    # a second submachine visited and left as well
                    ops += [P(0, 8, 6), P(0, 5, 7), P(0, 6, 8)]
                    if mode == "assign":
                        ops += [("copy", 1, 0), P(1, 4, 9), P(1, 5, 10), ("assign", 1, 0)]
                    else:
                        ops += [(mode, 1, 0)]
                    src = 0 if mode != "move" else None
                    for k in ([0, 1] if mode != "move" else [1]):
                        ops += [P(k, reenter, 20 + k), P(k, 5, 22 + k), P(k, 6, 24 + k), P(k, 8, 26 + k), P(k, 5, 28 + k)]
                    if mode == "move":
                        ops += [("assign", 0, 1), P(0, reenter, 30), P(0, 5, 31)]
                    opss.append(ops)
            out.append(("%shist_%s" % ({"copy": "copy", "assign": "assign", "move": "move", "saveload": "save"}[mode], hname), md, opss))
    return out

def copy_pool_counter_machines():
    """backmp11: a copy taken while a deferred occurrence is pending must carry the pool's sequence counter along with
    the occurrences (seeded C15e): Busy defers e6; the source processes n events before e6 is stored, is copied (or
    assigned to a target that has processed m events of its own), then e7 leaves Busy on both objects - both must
    dispatch the stored e6 in that very call. Every n, m in 0..3: the stale-counter coincidence needs n = m + 1"""
    def P(k, e, pay):
        return ("on", k, ("process", e, pay, [], []))
    root = machine([state(), state(defers=[6]), state()], [0],
                   [row(1, 0, 4, 1), row(2, 1, 5, "none", act="call"), row(3, 1, 7, 2, act="call"),
                    row(4, 2, 6, "none", act="call"), row(5, 2, 5, "none", act="call")])
    md = mdef(root, 4)
    opss = []
    for n in range(4):
        ops = [("start", [], []), P(0, 4, 1)] + [P(0, 5, 10 + i) for i in range(n)] + [P(0, 6, 20), ("copy", 1, 0)]
        ops += [P(0, 7, 30), P(1, 7, 31), P(0, 5, 32), P(1, 5, 33)]
        opss.append(ops)
    for n in range(1, 4):
        m = n - 1
        ops = [("start", [], []), ("copy", 1, 0), P(1, 4, 2)] + [P(1, 5, 40 + i) for i in range(m)]
        ops += [P(0, 4, 1)] + [P(0, 5, 10 + i) for i in range(n)] + [P(0, 6, 20), ("assign", 1, 0)]
        ops += [P(0, 7, 30), P(1, 7, 31), P(0, 5, 32), P(1, 5, 33)]
        opss.append(ops)
    return [("copy_pool_counter", md, opss, ["mp11", "mp11_fct", "mp11_fpa"])]

def save_pseudo_machines():
    """saved while a state with the explicit_entry tag (entered directly, twice) is active, and - a second machine - after
    leaving through an exit pseudo state: their opted-in data must come back like everybody else's"""
    def P(k, e, pay):
        return ("on", k, ("process", e, pay, [], []))
    out = []
    for name, with_exit in (("save_explicit_entry", False), ("save_exit_point", True)):
        b = state(zone=0); b["explicit"] = True
        states = [state(zone=0), b] + ([state(kind=["exitpt", 8], zone=0)] if with_exit else [])
        rows = [row(10, 0, 5, 1, act="call"), row(11, 1, 5, 0, act="call")] + ([row(12, 1, 7, 2, act="call")] if with_exit else [])
        sub = machine(states, [0], rows)
        root = machine([state(), state(sub=sub)], [0],
                       [row(1, 0, 4, ["direct", 1, [1]], act="call"), row(2, 1, 6, 0, act="call")] +
                       ([row(3, 1, 8, 0, act="call", exitpt=2)] if with_exit else []))
        md = mdef(root, 5)
        ops1 = [("start", [], []), P(0, 4, 1), P(0, 6, 2), P(0, 4, 3), ("saveload", 1, 0), P(0, 5, 4), P(1, 5, 5), P(1, 5, 6), P(0, 6, 7), P(1, 6, 8)]
        ops2 = [("start", [], []), P(0, 4, 1), P(0, 7, 2), ("saveload", 1, 0), P(0, 4, 3), P(1, 4, 4), P(1, 5, 5)]
        out.append((name, md, [ops1, ops2] if with_exit else [ops1]))
    return out

def rowkind_machines():
    """every kind of row (guard+action, action only, guard only, neither) with every kind of target (simple state,
    submachine, explicit entry, fork, entry point) - the engines specialise the row execution per kind"""
    out = []
    for kname, guard, act, with_ep in [(k, g, a, ep) for ep in (False, True)
                                       for (k, g, a) in (("row", True, "call"), ("arow", False, "call"), ("grow", True, "none"), ("norow", False, "none"))]:
        a2 = state(zone=0); a2["explicit"] = True
        b2 = state(zone=1); b2["explicit"] = True
        if with_ep:
            sub = machine([state(zone=0), a2, state(zone=1), b2, state(kind="entrypt", zone=0), state(zone=0)], [0, 2],
                          [row(20, 0, 5, 1), row(21, 2, 5, 3), row(22, 4, 6, 5, act="call"), row(23, 5, 5, 0), row(24, 1, 5, 0), row(25, 3, 5, 2)])
        else:
            sub = machine([state(zone=0), a2, state(zone=1), b2], [0, 2],
                          [row(20, 0, 5, 1), row(21, 2, 5, 3), row(24, 1, 5, 0), row(25, 3, 5, 2)])
        root = machine([state(), state(sub=sub), state()], [0],
                       [row(1, 0, 4, 1, guard=guard, act=act),
                        row(2, 0, 5, ["direct", 1, [1]], guard=guard, act=act),
                        row(3, 0, 6, ["direct", 1, [1, 3]], guard=guard, act=act),
                        (row(4, 0, 7, ["entrypt", 1, 4], guard=guard, act=act) if with_ep else row(4, 0, 7, 1, guard=guard, act=act)),
                        row(5, 0, 8, 2, guard=guard, act=act),
                        row(6, 1, 9, 0, act="call"), row(7, 2, 9, 0),
                        row(8, 0, 10, "none", guard=guard, act=act)])
        md = mdef(root, 7)
        opss = []
        for val in ([1, 2, 3, 4, 5, 8], []):
            ops = [("start", [], [])]
            pay = 0
            for e in (4, 5, 6, 7, 8, 10):
                pay += 1
                ops += [("process", e, pay, val, []), ("process", 5, pay + 20, val, []), ("process", 9, pay + 40, val, [])]
            opss.append(ops)
        out.append(("rowkind_" + ("ep_" if with_ep else "") + kname, md, opss))
    return out

def main():
    os.makedirs(os.path.join(VERIF, "corpus"), exist_ok=True)
    n = 0
    for item in fwd_machines() + ortho_machines() + defer_code_machines() + defer_ortho_reject_machines() + defer_action_machines() + base_event_machines() + block_machines() + pseudo_machines() + fork_machines() + explicit_completion_machines() + completion_ortho_defer_machines() + defer_completion_order_machines() + root_history_machines() + flag_machines() + throw_machines() + throw_in_pool_machines() + throw_nested_machines() + copy_history_machines() + copy_pool_counter_machines() + save_pseudo_machines() + rowkind_machines():
        name, md, opss = item[:3]
        save(name, md, opss, cfgs=item[3] if len(item) > 3 else None)
        n += 1
    print("wrote %d corpus machines" % n)

if __name__ == "__main__":
    main()
