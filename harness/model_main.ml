(* model_main.ml - driver around the extracted model (coq/msm_model.ml).
   usage: model_main <backend> <fct 0/1> <policy 0-3> <qbefore 0/1> < case.sexp
   input : one s-expression for the machine definition, then one per operation.
   output: the same canonical trace lines the C++ harness prints. *)
open Msm_model

type sexp = A of string | L of sexp list

let read_all ic =
  let b = Buffer.create 65536 in
  (try while true do Buffer.add_channel b ic 1 done with End_of_file -> ());
  Buffer.contents b

let parse (s : string) : sexp list =
  let n = String.length s in
  let pos = ref 0 in
  let rec skip () =
    if !pos < n && (s.[!pos] = ' ' || s.[!pos] = '\n' || s.[!pos] = '\t' || s.[!pos] = '\r') then (incr pos; skip ()) in
  let rec item () =
    skip ();
    if !pos >= n then None
    else if s.[!pos] = '(' then begin
      incr pos;
      let rec items acc =
        skip ();
        if !pos >= n then failwith "unterminated list"
        else if s.[!pos] = ')' then (incr pos; List.rev acc)
        else match item () with Some x -> items (x :: acc) | None -> failwith "eof in list" in
      Some (L (items []))
    end else begin
      let st = !pos in
      while !pos < n && not (List.mem s.[!pos] [' '; '\n'; '\t'; '\r'; '('; ')']) do incr pos done;
      Some (A (String.sub s st (!pos - st)))
    end in
  let rec all acc = match item () with Some x -> all (x :: acc) | None -> List.rev acc in
  all []

let rec nat_of_int i = if i <= 0 then O else S (nat_of_int (i - 1))
let rec int_of_nat = function O -> 0 | S n -> 1 + int_of_nat n
let bad what x = failwith ("bad " ^ what ^ ": " ^ (match x with A a -> a | L _ -> "(list)"))
let nat = function A a -> nat_of_int (int_of_string a) | x -> bad "nat" x
let nats = function L l -> List.map nat l | x -> bad "nats" x
let evt = function L [A "e"; t; p] -> { e_ty = nat t; e_pay = nat p } | x -> bad "evt" x

let trig = function
  | L [A "ev"; n] -> TrEv (nat n) | A "any" -> TrAny | A "none" -> TrNone | x -> bad "trig" x
let tgt = function
  | A "none" -> TgNone | L [A "state"; s] -> TgState (nat s)
  | L [A "direct"; s; subs] -> TgDirect (nat s, nats subs)
  | L [A "entrypt"; s; p] -> TgEntryPt (nat s, nat p) | x -> bad "tgt" x
let act = function A "none" -> ActNone | A "call" -> ActCall | A "defer" -> ActDefer | x -> bad "act" x
let row = function
  | L [A "row"; id; src; tr; tg; g; a; ex] ->
    { r_id = nat id; r_src = nat src; r_trig = trig tr; r_tgt = tgt tg;
      r_guard = (g = A "1"); r_act = act a;
      r_exitpt = (match ex with A "nil" -> None | x -> Some (nat x)) }
  | x -> bad "row" x
let rows = function L l -> List.map row l | x -> bad "rows" x
let hist = function
  | A "none" -> HNone | A "always" -> HAlways | L (A "shallow" :: l) -> HShallow (List.map nat l) | x -> bad "hist" x
let kind = function
  | A "simple" -> KSimple | A "term" -> KTerm | L (A "intr" :: l) -> KIntr (List.map nat l)
  | A "entrypt" -> KEntryPt | L [A "exitpt"; e] -> KExitPt (nat e) | A "sub" -> KSub | x -> bad "kind" x
let rec machine = function
  | L [A "machine"; L sts; ini; rs; irs; h] ->
    Machine (List.map state sts, nats ini, rows rs, rows irs, hist h)
  | x -> bad "machine" x
and state = function
  | L [A "state"; k; sub; sir; defs; flags; zone] ->
    State (kind k, (match sub with A "nil" -> None | m -> Some (machine m)), rows sir, nats defs, nats flags, nat zone)
  | x -> bad "state" x
let mdef = function
  | L [A "mdef"; L ps; m] ->
    { md_root = machine m;
      md_parents = List.map (function A "nil" -> None | x -> Some (nat x)) ps }
  | x -> bad "mdef" x

let cmd = function
  | A "throw" -> CThrow | L [A "proc"; e] -> CProc (evt e) | L [A "enq"; e] -> CEnq (evt e) | x -> bad "cmd" x
let plan = function L l -> List.map (function L [i; c] -> (nat i, cmd c) | x -> bad "plan" x) l | x -> bad "plan" x
let rec op = function
  | L [A "on"; k; o] -> OOn (nat k, op o)
  | L [A "start"; v; p] -> OStart (nats v, plan p)
  | L [A "stop"; p] -> OStop (plan p)
  | L [A "process"; e; v; p] -> OProcess (evt e, nats v, plan p)
  | L [A "enqueue"; e] -> OEnqueue (evt e)
  | L [A "drain"; v; p] -> ODrain (nats v, plan p)
  | L [A "drain1"; v; p] -> ODrain1 (nats v, plan p)
  | L [A "reset"] -> OReset
  | L [A "copy"; d; s] -> OCopy (nat d, nat s)
  | L [A "assign"; d; s] -> OAssign (nat d, nat s)
  | L [A "move"; d; s] -> OMove (nat d, nat s)
  | L [A "saveload"; d; s] -> OSaveLoad (nat d, nat s)
  | x -> bad "op" x

let ints l = String.concat "," (List.map (fun n -> string_of_int (int_of_nat n)) l)
let path p = String.concat "." ("r" :: List.map (fun n -> string_of_int (int_of_nat n)) p)
let i = int_of_nat
let b2i b = if b then 1 else 0
let print_item = function
  | Cb (k, p, id, ev, w, obs) ->
    let tag = match k with
      | KGuard r -> Printf.sprintf "G%d" (b2i r) | KAction -> "A" | KEntry -> "N" | KExit -> "X"
      | KMEntry -> "MN" | KMExit -> "MX" | KNoTrans -> "NT" | KExc -> "EC" in
    Printf.printf "%s %s %d e%d p%d w%d [%s]\n" tag (path p) (i id) (i ev.e_ty) (i ev.e_pay) (b2i w) (ints obs)
  | Res c -> Printf.printf "R %d\n" (i c)
  | Escaped -> print_string "ESC\n"
  | Bad n -> Printf.printf "BAD %d\n" (i n)

let rec print_ids mp11 p m =
  let Machine (sts, _, _, _, _) = m in
  let order = doc_order mp11 m [] in
  Printf.printf "DOC %s %s\n" (path p) (String.concat " " (List.map (fun n -> string_of_int (int_of_nat n)) order));
  List.iteri (fun i st -> match st with State (_, Some sub, _, _, _, _) -> print_ids mp11 (p @ [nat_of_int i]) sub | _ -> ()) sts

let str_of_string (s:string) : nat list = List.init (String.length s) (fun i -> nat_of_int (Char.code s.[i]))
let string_of_str (l:nat list) : string = String.concat "" (List.map (fun n -> String.make 1 (Char.chr (int_of_nat n))) l)

let puml_mode () =
  (* one input line = one PlantUML line; output: the fields the C++ probe prints *)
  (try while true do
      let line = input_line stdin in
      let s = str_of_string line in
      let t = parse_row s in
      let acts = t.t_action in
      Printf.printf "ROW\x1f%s\x1f%s\x1f%s\x1f%s\x1f%s\x1fCLEAN\x1f%s\x1fNACT\x1f%d\x1fA0\x1f%s\x1fA1\x1f%s\x1fA2\x1f%s\x1fNTR\x1f%d\n"
        (string_of_str t.t_source) (string_of_str t.t_target) (string_of_str t.t_event)
        (string_of_str t.t_guard) (string_of_str acts) (string_of_str (cleanup_token s))
        (int_of_nat (count_actions acts))
        (string_of_str (parse_action O acts)) (string_of_str (parse_action (S O) acts)) (string_of_str (parse_action (S (S O)) acts))
        (int_of_nat (count_transitions s))
    done with End_of_file -> ())

let stt_mode () =
  (* one input line = one whole description (line ends written as \x1e); output: the rows parse_stt<0..5> select *)
  (try while true do
      let line = input_line stdin in
      let s = List.map (fun n -> if int_of_nat n = 0x1e then nat_of_int 10 else n) (str_of_string line) in
      let rec nat_of k = if k = 0 then O else S (nat_of (k - 1)) in
      for k = 0 to 5 do
        let t = parse_stt (nat_of k) s in
        Printf.printf "STT%d\x1f%s\x1f%s\x1f%s\x1f%s\x1f%s\x1f" k
          (string_of_str t.t_source) (string_of_str t.t_target) (string_of_str t.t_event)
          (string_of_str t.t_guard) (string_of_str t.t_action)
      done;
      Printf.printf "CI\x1f%d\x1fCT\x1f%d\n" (int_of_nat (count_inits s)) (int_of_nat (count_terminates s))
    done with End_of_file -> ())

let guard_mode () =
  (* one input line = one PlantUML transition line; output: the guard tree the library builds for it *)
  (try while true do
      let line = input_line stdin in
      let t = parse_row (str_of_string line) in
      (match t.t_guard with
       | [] -> print_string "none\n"
       | g -> (match parse_guard g with
           | Some x -> print_endline (string_of_str (gshow x))
           | None -> print_endline "NONE"))
    done with End_of_file -> ())

(* front-end elaboration and combinator semantics (Frontends.v); one s-expression per line *)
let fe_mode () =
  let rec gx = function
    | L [A "atom"; n] -> GxAtom (nat n) | L [A "not"; a] -> GxNot (gx a)
    | L [A "and"; a; b] -> GxAnd (gx a, gx b) | L [A "or"; a; b] -> GxOr (gx a, gx b) | x -> bad "gx" x in
  let ogx = function A "nil" -> None | x -> Some (gx x) in
  let onat = function A "nil" -> None | x -> Some (nat x) in
  let rec show_gx = function
    | GxAtom n -> Printf.sprintf "(atom %d)" (int_of_nat n) | GxNot a -> "(not " ^ show_gx a ^ ")"
    | GxAnd (a, b) -> "(and " ^ show_gx a ^ " " ^ show_gx b ^ ")" | GxOr (a, b) -> "(or " ^ show_gx a ^ " " ^ show_gx b ^ ")" in
  let show_on = function None -> "nil" | Some n -> string_of_int (int_of_nat n) in
  let tag_name = function TagRow -> "row" | TagARow -> "a_row" | TagGRow -> "g_row" | Tag_Row -> "_row"
                        | TagIRow -> "irow" | TagAIRow -> "a_irow" | TagGIRow -> "g_irow" | Tag_IRow -> "_irow" in
  let show_row r =
    Printf.printf "ROW %d %s %s (%s) %s\nTAG %s\n" (int_of_nat r.f_src) (show_on r.f_ev) (show_on r.f_tgt)
      (String.concat " " (List.map (fun a -> string_of_int (int_of_nat a)) r.f_acts))
      (match r.f_guard with None -> "nil" | Some g -> show_gx g) (tag_name (frow_tag r)) in
  (try while true do
      let line = input_line stdin in
      match parse line with
      | [L [A "euml"; A form; s; e; t; g; acts]] ->
        let r = (match form with
            | "first" -> ETgtFirst ((match onat t with Some x -> x | None -> O), nat s, onat e, ogx g, nats acts)
            | "last" -> ETgtLast (nat s, onat e, ogx g, nats acts, (match onat t with Some x -> x | None -> O))
            | _ -> EInternal (nat s, onat e, ogx g, nats acts)) in
        show_row (elab_euml r)
      | [L [A "basictag"; A k]] ->
        let z = O in
        let b = (match k with
            | "row" -> B_row (z, z, z, z, z) | "a_row" -> B_a_row (z, z, z, z) | "g_row" -> B_g_row (z, z, z, z) | "_row" -> B__row (z, z, z)
            | "irow" -> B_irow (z, z, z, z) | "a_irow" -> B_a_irow (z, z, z) | "g_irow" -> B_g_irow (z, z, z) | "_irow" -> B__irow (z, z)
            | "row2" -> B_row2 (z, z, z, None, z, None, z) | "a_row2" -> B_a_row2 (z, z, z, None, z) | "g_row2" -> B_g_row2 (z, z, z, None, z)
            | "_row2" -> B__row2 (z, z, z) | "irow2" | "internal" -> B_irow2 (z, z, None, z, None, z)
            | "a_irow2" | "a_internal" -> B_a_irow2 (z, z, None, z) | "g_irow2" | "g_internal" -> B_g_irow2 (z, z, None, z)
            | "_internal" -> B__irow (z, z) | s -> failwith ("basictag " ^ s)) in
        Printf.printf "TAG %s\n" (tag_name (basic_tag b))
      | [L [A "run"; g; acts; v]] ->
        let vv = int_of_string (match v with A a -> a | _ -> "0") in
        let valu n = (vv lsr (int_of_nat n)) land 1 = 1 in
        let r = { f_src = O; f_ev = None; f_tgt = None; f_acts = nats acts; f_guard = ogx g } in
        let (b, order) = frow_guard valu r in
        Printf.printf "RUN %d %d :%s /%s\n" vv (if b then 1 else 0)
          (String.concat "" (List.map (fun a -> " " ^ string_of_int (int_of_nat a)) order))
          (String.concat "" (List.map (fun a -> " " ^ string_of_int (int_of_nat a)) (frow_action r)))
      | _ -> print_endline "FE-PARSE-ERROR"
    done with End_of_file -> ())

let store_mode () =
  (* input: "TYPE name size align nothrow trivial" lines, then operations; output mirrors store_probe *)
  let types = ref [] in
  let st = ref (init_store (nat_of_int 6)) in
  let dump () =
    let live = ref 0 in
    List.iter (fun c -> match c with
        | CEmpty -> print_string " -"
        | CInline (t, _, v) -> Printf.printf " i%d" (int_of_nat v); if not t.t_trivial then incr live
        | CHeap (t, Some (_, v)) -> Printf.printf " h%d" (int_of_nat v); if not t.t_trivial then incr live
        | CHeap (_, None) -> print_string " null") (!st).cells;
    Printf.printf " | live %d\n" !live in
  (try while true do
      let line = input_line stdin in
      match String.split_on_char ' ' (String.trim line) with
      | "TYPE" :: _ :: sz :: al :: nt :: tr :: _ ->
        types := !types @ [{ t_size = nat_of_int (int_of_string sz); t_align = nat_of_int (int_of_string al);
                             t_nothrow_move = (nt = "1"); t_trivial = (tr = "1") }]
      | [] | [""] -> ()
      | op :: args ->
        let a k = nat_of_int (int_of_string (List.nth args k)) in
        let sop = (match op with
            | "M" -> Some (SMake (a 0, List.nth !types (int_of_string (List.nth args 1)), a 2))
            | "C" -> Some (SCopyCtor (a 0, a 1)) | "A" -> Some (SCopyAssign (a 0, a 1))
            | "V" -> Some (SMoveCtor (a 0, a 1)) | "W" -> Some (SMoveAssign (a 0, a 1))
            | "D" -> Some (SDestroy (a 0)) | "X" -> None | _ -> failwith ("store op " ^ op)) in
        (match sop with
         | None -> st := destroy_all !st; dump ()
         | Some o -> if wf_op !st o then (st := sstep !st o; dump ()) else print_string "SKIP\n")
    done with End_of_file -> ())

let () =
  if Sys.argv.(1) = "puml" then (puml_mode (); exit 0);
  if Sys.argv.(1) = "stt" then (stt_mode (); exit 0);
  if Sys.argv.(1) = "guard" then (guard_mode (); exit 0);
  if Sys.argv.(1) = "store" then (store_mode (); exit 0);
  if Sys.argv.(1) = "fe" then (fe_mode (); exit 0);
  if Sys.argv.(1) = "spec" then begin
    (* the specification function of Spec.v run directly (no engine model involved): spec <stale 0|1> <policy> *)
    (match parse (read_all stdin) with
     | [] -> failwith "no input"
     | m :: ops ->
       let md = mdef m in
       let ops = List.map op ops in
       if not (coreb md.md_root) || not (List.for_all plain_opb ops) || List.exists (fun p -> p <> None) md.md_parents
       then print_string "NOTCORE\n"
       else
         List.iter (fun ((items, out), snap) ->
             List.iter print_item items;
             (match out with Some (h, rj) -> Printf.printf "RH %d %d\n" (b2i h) (b2i rj) | None -> ());
             List.iter (fun (p, ids) -> Printf.printf "SNAP %s [%s]\n" (path p) (ints ids)) snap;
             print_string "--\n")
           (spec_trace (Sys.argv.(2) = "1") (nat_of_int (int_of_string Sys.argv.(3))) md.md_root ops));
    exit 0
  end;
  if Sys.argv.(1) = "qspec" then begin
    (* the specification with the pending list (Spec.sp_qrun; proved for back): qspec <policy> *)
    (match parse (read_all stdin) with
     | [] -> failwith "no input"
     | m :: ops ->
       let md = mdef m in
       let ops = List.map op ops in
       if not (coreb md.md_root) || not (List.for_all qplain_opb ops) || List.exists (fun p -> p <> None) md.md_parents
       then print_string "NOTCORE\n"
       else
         List.iter (fun ((items, out), snap) ->
             List.iter print_item items;
             (match out with Some (h, rj) -> Printf.printf "RH %d %d\n" (b2i h) (b2i rj) | None -> ());
             List.iter (fun (p, ids) -> Printf.printf "SNAP %s [%s]\n" (path p) (ints ids)) snap;
             print_string "--\n")
           (spec_qtrace (nat_of_int (int_of_string Sys.argv.(2))) md.md_root ops));
    exit 0
  end;
  if Sys.argv.(1) = "qspec_mp11" then begin
    (* backmp11's reading (Spec.sp_qrun_mp11: start() empties the pool; proved for backmp11): qspec_mp11 <policy> *)
    (match parse (read_all stdin) with
     | [] -> failwith "no input"
     | m :: ops ->
       let md = mdef m in
       let ops = List.map op ops in
       if not (coreb md.md_root) || not (qbracketedb false ops) || List.exists (fun p -> p <> None) md.md_parents
       then print_string "NOTCORE\n"
       else
         List.iter (fun ((items, out), snap) ->
             List.iter print_item items;
             (match out with Some (h, rj) -> Printf.printf "RH %d %d\n" (b2i h) (b2i rj) | None -> ());
             List.iter (fun (p, ids) -> Printf.printf "SNAP %s [%s]\n" (path p) (ints ids)) snap;
             print_string "--\n")
           (spec_qtrace_mp11 (nat_of_int (int_of_string Sys.argv.(2))) md.md_root ops));
    exit 0
  end;
  if Sys.argv.(1) = "ids" then begin
    (match parse (read_all stdin) with
     | m :: _ -> print_ids (Sys.argv.(2) = "mp11") [] (mdef m).md_root
     | [] -> failwith "no input");
    exit 0
  end;
  let be = match Sys.argv.(1) with "back" -> Back | "back11" -> Back11 | "mp11" -> Mp11 | s -> failwith ("backend " ^ s) in
  let cf = { c_be = be; c_fct = Sys.argv.(2) = "1"; c_pol = nat_of_int (int_of_string Sys.argv.(3));
             c_qbefore = Sys.argv.(4) = "1" } in
  match parse (read_all stdin) with
  | [] -> failwith "no input"
  | m :: ops ->
    let md = mdef m in
    let processor = build cf md.md_parents false md.md_root in
    let rec maxflag m = let Machine (sts, _, _, _, _) = m in
      List.fold_left (fun acc st -> match st with State (_, sub, _, _, fl, _) ->
        let a = List.fold_left (fun x f -> max x (int_of_nat f + 1)) acc fl in
        (match sub with Some sm -> max a (maxflag sm) | None -> a)) 0 sts in
    let nflags = maxflag md.md_root in
    let w = ref (init_world md.md_root) in
    List.iter (fun o ->
        let (w', tr) = run_wop cf md.md_root processor default_fuel !w (op o) in
        w := w';
        List.iter print_item tr;
        List.iteri (fun k orn -> match orn with
            | None -> ()
            | Some rn ->
              let tag = if k = 0 then "SNAP" else Printf.sprintf "SNAP@%d" k in
              List.iter (fun (p, ids) -> Printf.printf "%s %s [%s]\n" tag (path p) (ints ids)) (snapshot md.md_root rn []);
              if k = 0 then
                List.iteri (fun f (o, a) -> Printf.printf "FLAG %d or=%d and=%d\n" f (b2i o) (b2i a)) (flags_snapshot processor rn (nat_of_int nflags))) !w;
        print_string "--\n") ops
