"""monitors.py - property monitors over the implementation's own traces (used to search for a failing input and to
recognise known findings; they never stand in for a theorem) and trace projections per property."""
import re, collections
import msmgen

LINE = re.compile(r"^(G0|G1|A|N|X|MN|MX|NT|EC) (\S+) (-?\d+) e(-?\d+) p(-?\d+) w(\d) \[([\d,\-]*)\]$")

def parse(line):
    m = LINE.match(line)
    if not m:
        return None
    tag, path, id_, ety, pay, w, obs = m.groups()
    return {"tag": tag, "path": path, "id": int(id_), "ety": int(ety), "pay": int(pay), "w": int(w),
            "obs": [int(x) for x in obs.split(",")] if obs else []}

def result_of(block):
    for l in block:
        if l.startswith("R "):
            return int(l.split()[1])
    return None

def snaps_of(block):
    out = {}
    for l in block:
        if l.startswith("SNAP "):
            _, path, ids = l.split(" ", 2)
            out[path] = [int(x) for x in ids.strip("[]").split(",")] if ids != "[]" else []
    return out

# ---- projections: the part of a trace each property constrains --------------------------------------
def proj(tags, keep_obs=False, keep_res=False, keep_snap=False, keep_ev=False):
    def f(block):
        out = []
        for l in block:
            p = parse(l)
            if p:
                if p["tag"] in tags or (tags == "*"):
                    item = (p["tag"], p["path"], p["id"])
                    if keep_ev:
                        item += (p["ety"], p["pay"], p["w"])
                    if keep_obs:
                        item += (tuple(p["obs"]),)
                    out.append(item)
            elif l.startswith("R ") and keep_res:
                out.append(l)
            elif l.startswith("SNAP") and keep_snap:
                out.append(l)
            elif l in ("ESC",) or l.startswith("BAD"):
                out.append(l)
        return out
    return f

def proj_C17(block):
    """what C17 constrains: the flag answers and configurations reported after every operation, and - "inside behaviours it
    reflects the configuration defined by the active-state-switch policy" - the ids the outermost machine's behaviours
    read (the flag answers taken there, #FL lines, are a function of exactly those ids)"""
    out = [l for l in block if l.startswith("FLAG") or l.startswith("SNAP")]
    for l in block:
        q = parse(l)
        if q and q["path"] == "r":
            out.append((q["tag"], q["id"], tuple(q["obs"])))
    return out

def relevant_by(projection):
    def rel(first_diff, r):
        if not r or "impl" not in r:
            return True
        a, b = r["impl"], r["model"]
        if len(a) != len(b):
            return True
        return any(projection(x) != projection(y) for x, y in zip(a, b))
    return rel

ALL = "*"

# ---- helpers over definitions in library numbering ---------------------------------------------------
def machine_at(md_root, path):
    m = md_root
    if path != "r":
        for k in path.split(".")[1:]:
            m = m["states"][int(k)]["sub"]
            if m is None:
                return None
    return m

def rows_by_id(md_root):
    out = {}
    for path, m in msmgen.walk(md_root):
        for r in msmgen.all_rows(m):
            out[r["id"]] = (msmgen.pstr(path), m, r)
    return out

# ---- C19 ---------------------------------------------------------------------------------------------
DOC_POLICY = [[0, 0, 0, 1], [0, 0, 1, 1], [0, 1, 1, 1], [1, 1, 1, 1]]   # documented: policy x (after guard, exit, action, entry)

def observed_id(pol, phase, cur, nxt):
    if phase == 0:
        return cur
    return nxt if DOC_POLICY[pol][phase - 1] else cur

def mon_C19(md_lib, cfg, ops, impl, stats, r=None):
    """every behaviour of the transitioning machine sees, for the transitioning region, the id the documented
    policy prescribes for its phase"""
    pol = corr_policy(cfg)
    rows = rows_by_id(md_lib)
    out = []
    for k, block in enumerate(impl):
        items = [parse(l) for l in block]
        i = 0
        while i < len(items):
            it = items[i]
            i += 1
            if not it or it["tag"] != "G1" and it["tag"] != "A":
                continue
            if it["id"] not in rows:
                continue
            path, m, row = rows[it["id"]]
            if row["tgt"] == "none" or row["tgt"][0] != "state" or path != it["path"]:
                continue
            cur, nxt = row["src"], row["tgt"][1]
            if cur == nxt:
                continue
            region = m["states"][cur]["zone"]
            def chk(item, phase):
                if item["path"] == path and len(item["obs"]) > region:
                    exp = observed_id(pol, phase, cur, nxt)
                    stats.nontrivial.add(("C19", pol, phase, path, row["id"]))
                    stats.dist[("phase", phase, "policy", pol)] += 1
                    if item["obs"][region] != exp:
                        out.append("op %d: row %d (%s %d->%d, region %d) phase %d under policy %d: behaviour %s saw id %d, documented %d"
                                   % (k, row["id"], path, cur, nxt, region, phase, pol, item["tag"], item["obs"][region], exp))
            if it["tag"] == "G1":
                chk(it, 0)
                # the items of this row follow until its action / the target's entry
                j = i
                seen_entry = False
                while j < len(items) and not seen_entry:
                    x = items[j]
                    j += 1
                    if not x:
                        break
                    if x["tag"] in ("G0", "G1", "NT", "EC"):
                        if x["path"] == path:
                            break
                        continue
                    if x["tag"] == "X" and x["path"] == path and x["id"] == cur:
                        chk(x, 1)
                    elif x["tag"] == "MX" and x["path"] == path + "." + str(cur):
                        chk(dict(x, path=path), 1)
                    elif x["tag"] == "A" and x["path"] == path and x["id"] == row["id"]:
                        chk(x, 2)
                    elif x["tag"] == "N" and x["path"] == path and x["id"] == nxt:
                        chk(x, 3); seen_entry = True
                    elif x["tag"] == "MN" and x["path"] == path + "." + str(nxt):
                        chk(dict(x, path=path), 3); seen_entry = True
    return out

def corr_policy(cfg):
    base, _, rest = cfg.partition(":")
    return int(rest[1:]) if rest.startswith("p") else 0

# ---- C06 ---------------------------------------------------------------------------------------------
def has_pseudo(m):
    for _, mm in msmgen.walk(m):
        if any(st["kind"] == "entrypt" or (isinstance(st["kind"], list) and st["kind"][0] == "exitpt") or st.get("explicit") for st in mm["states"]):
            return True
        if any(isinstance(rr["tgt"], list) and rr["tgt"][0] in ("direct", "entrypt") for rr in msmgen.all_rows(mm)):
            return True
    return False

def mon_C06(md_lib, cfg, ops, impl, stats, r=None):
    out = []
    if has_pseudo(md_lib):
        # entry pseudo states re-dispatch the entering event inside the submachine (a nested direct call that reports its
        # own no_transition), exit pseudo states create a converted occurrence with the same payload: the attribution of
        # no_transition reports to the outer call below does not apply (C09 covers these machines)
        return out
    nreg_root = len(md_lib["inits"])
    prev_snap = None
    for k, block in enumerate(impl):
        op = ops[k] if k < len(ops) else None
        res = result_of(block)
        nts = [parse(l) for l in block if l.startswith("NT ")]
        if op and op[0] == "process":
            # only the reports for the occurrence this call submitted: an older deferred or queued occurrence that is
            # re-offered during the call is reported for itself (C05), on the machine that stored it
            nts = [n for n in nts if (n["ety"], n["pay"]) == (op[1], op[2])]
        if op and op[0] == "process" and not op[4] and "ESC" not in block:
            stats.dist[("result", res)] += 1
            stats.nontrivial.add(("C06", k, res, len(nts)))
            if nts and res != 0:
                out.append("op %d: no_transition called although process_event returned %s" % (k, res))
            if any(n["path"] != "r" for n in nts):
                out.append("op %d: no_transition called on a submachine" % k)
            if res == 0 and len(nts) not in (0, nreg_root):
                out.append("op %d: no_transition called %d times for %d regions" % (k, len(nts), nreg_root))
            if nts and prev_snap is not None and [n["id"] for n in nts] != prev_snap.get("r"):
                out.append("op %d: no_transition state ids %s differ from the active ids %s" % (k, [n["id"] for n in nts], prev_snap.get("r")))
        s = snaps_of(block)
        if s:
            prev_snap = s
    return out


# ---- C01 / C07 -----------------------------------------------------------------------------------------
def _matches(md_parents, trig, ety):
    """does a trigger (["ev", t] / "any") match event type ety: t is ety or one of its bases"""
    if trig == "any":
        return True
    if not isinstance(trig, list) or trig[0] != "ev":
        return False
    e, n = ety, 0
    while e is not None and n < 64:
        if e == trig[1]:
            return True
        e = md_parents[e] if md_parents and 0 <= e < len(md_parents) else None
        n += 1
    return False

def _defers_below(m, path, snap, ety):
    """does an active state of machine m (at path) or of an active submachine below it list ety as deferred"""
    act = snap.get(path)
    if act is None:
        return False
    for s in act:
        if not (0 <= s < len(m["states"])):
            continue
        st = m["states"][s]
        if ety in st["defers"] and not any(rr["trig"] == "any" or rr["trig"] == ["ev", ety] for rr in st["sirows"]) \
                and not any(rr["src"] == s and (rr["trig"] == "any" or rr["trig"] == ["ev", ety]) for rr in m["rows"]):
            return True
        # back / back11 forward an event into a submachine only if its (recursive) transition table mentions the event
        # type: a submachine whose states merely defer it never receives it
        if st["sub"] is not None and any(rr["trig"] == ["ev", ety] for _, mm in msmgen.walk(st["sub"]) for rr in mm["rows"]) \
                and _defers_below(st["sub"], path + "." + str(s), snap, ety):
            return True
    return False

def mon_C01(md_lib, cfg, ops, impl, stats, r=None):
    """selection rules read off the implementation's own trace (no model, no regenerated table involved), for
    process_event calls whose behaviours only observe:
      A  within one cell (machine, source state) guards are evaluated last-declared-first, each once, none after one held;
      B  a state's own internal table before the table rows of that state;
      C  once a transition was taken or the event was deferred inside an active submachine, no row of the enclosing
         machine for that submachine state is evaluated or taken."""
    out = []
    rows = rows_by_id(md_lib)
    prev_snap = None
    for k, block in enumerate(impl):
        op = ops[k] if k < len(ops) else None
        if op and op[0] == "process" and not op[4] and prev_snap is not None and "ESC" not in block and not any(l.startswith("BAD") for l in block):
            ety, pay = op[1], op[2]
            items = [x for x in (parse(l) for l in block) if x and (x["ety"], x["pay"]) == (ety, pay)]
            gs = [x for x in items if x["tag"] in ("G0", "G1") and x["id"] in rows]
            ids = [x["id"] for x in gs]
            if len(ids) != len(set(ids)):
                # a guard evaluated twice for one occurrence in one call
                dup = [i for i in set(ids) if ids.count(i) > 1]
                # legitimate only if the occurrence was dispatched again (deferred and re-offered in the same call)
                res = result_of(block)
                if not (res is not None and res & 4) and not has_deferral(md_lib):
                    out.append("op %d: guard(s) %s evaluated more than once for one occurrence of e%d" % (k, sorted(dup), ety))
            else:
                # A, B: order within a cell
                cells = collections.OrderedDict()
                for x in gs:
                    path, m, row = rows[x["id"]]
                    cells.setdefault((path, row["src"]), []).append(x)
                for (path, src), xs in cells.items():
                    m = machine_at(md_lib, path)
                    st = m["states"][src] if 0 <= src < len(m["states"]) else None
                    cand = []
                    if st is not None and st["sub"] is None:
                        cand += [rr["id"] for rr in reversed(st["sirows"])]
                    cand += [rr["id"] for rr in reversed(m["rows"]) if rr["src"] == src]
                    own = [x for x in xs if x["id"] in cand]
                    pos = [cand.index(x["id"]) for x in own]
                    stats.nontrivial.add(("C01", "cell", path, src, tuple(x["tag"] for x in own)))
                    if pos != sorted(pos):
                        out.append("op %d: guards of cell (%s, state %d) evaluated in order %s, candidates in priority order are %s"
                                   % (k, path, src, [x["id"] for x in own], cand))
                    for i, x in enumerate(own[:-1]):
                        if x["tag"] == "G1":
                            out.append("op %d: cell (%s, state %d): guard %d held, yet guard %d was evaluated after it"
                                       % (k, path, src, x["id"], own[i + 1]["id"]))
                            break
                # C: inner consumption blocks the enclosing rows
                for path, m in msmgen.walk(md_lib):
                    pstr_ = msmgen.pstr(path)
                    act = prev_snap.get(pstr_)
                    if act is None:
                        continue
                    for s in act:
                        if not (0 <= s < len(m["states"])) or m["states"][s]["sub"] is None:
                            continue
                        sub_path = pstr_ + "." + str(s)
                        if sub_path not in prev_snap:
                            continue
                        def into_exit(x):
                            _, mi, rw = rows[x["id"]]
                            t = rw["tgt"]
                            return isinstance(t, list) and t[0] == "state" and 0 <= t[1] < len(mi["states"]) and \
                                isinstance(mi["states"][t[1]]["kind"], list) and mi["states"][t[1]]["kind"][0] == "exitpt"
                        took = [x for x in items if x["tag"] in ("G1", "A") and (x["path"] == sub_path or x["path"].startswith(sub_path + "."))
                                and x["id"] in rows]
                        if any(into_exit(x) for x in took):
                            continue
                        res = result_of(block)
                        # the submachine is offered the event iff its (recursive) transition table mentions it
                        offered = any(rr["trig"] == ["ev", ety] for _, mm in msmgen.walk(m["states"][s]["sub"]) for rr in mm["rows"])
                        deferred = (not cfg.startswith("mp11")) and offered and \
                            _defers_below(m["states"][s]["sub"], sub_path, prev_snap, ety)
                        if not took and not deferred:
                            continue
                        outer = [x for x in items if x["tag"] in ("G0", "G1", "A") and x["path"] == pstr_ and x["id"] in rows
                                 and rows[x["id"]][2]["src"] == s and rows[x["id"]][2].get("exitpt") is None
                                 and rows[x["id"]][2] in m["rows"]]
                        stats.nontrivial.add(("C01", "inner-first", pstr_, s, bool(took), bool(deferred)))
                        if outer:
                            out.append("op %d: e%d was %s inside the submachine under state %d of %s, yet the enclosing machine's row %d for that state was %s"
                                       % (k, ety, "taken" if took else "deferred", s, pstr_, outer[0]["id"],
                                          "taken" if any(x["tag"] == "A" for x in outer) else "evaluated"))
        sn = snaps_of(block)
        if sn:
            prev_snap = sn
    return out


# ---- the specification function of Spec.v as a direct oracle ---------------------------------------------
def _plain(op):
    return (op[0] == "start" and not op[2]) or (op[0] == "stop" and not op[1]) or (op[0] == "process" and not op[4] and op[1] != 0)

def _bracketed(seg):
    started = False
    for op in seg:
        if op[0] == "start":
            if started:
                return False
            started = True
        elif op[0] == "stop":
            if not started:
                return False
            started = False
        elif not started:
            return False
    return True

def _qbracketed(seg):
    started = False
    for op in seg:
        if op[0] == "start":
            if started:
                return False
            started = True
        elif op[0] == "stop":
            if not started:
                return False
            started = False
        elif op[0] == "enqueue":
            pass
        elif not started:
            return False
    return True

def mon_spec(md_lib, cfg, ops, impl, stats, r=None):
    """for definitions in the core fragment (Spec.coreb, proved to imply Spec.core) and histories of start / stop /
    process_event whose behaviours only observe: the implementation's trace must be the specification function of
    Spec.v, run directly (extracted spec_trace; neither the engine model nor anything regenerated from the headers is
    involved): same behaviour invocations, order and arguments, same reported configuration after every operation,
    result code with the specified handled / rejected meaning"""
    import subprocess, corr
    base = cfg.split(":")[0].split("@")[0].replace("+circ", "")
    if "@" in cfg:
        return []
    mp11 = base.startswith("mp11")
    if base == "back11" and any(m["irows"] or any(st["sirows"] for st in m["states"]) for _, m in msmgen.walk(md_lib)):
        return []                      # finding F7 separates back11 where internal tables exist
    if mp11 and md_lib["hist"] != "none":
        return []
    pol = corr_policy(cfg)
    out = []
    # segments between resets (each starts on a fresh object)
    segs, cur, start = [], [], 0
    for k, op in enumerate(ops):
        if op[0] == "reset":
            segs.append((start, cur)); cur, start = [], k + 1
        else:
            cur.append(op)
    segs.append((start, cur))
    md = {"parents": [None] * 16, "root": md_lib}
    def _qplain(op):
        return _plain(op) or (op[0] == "enqueue" and op[1] != 0) or (op[0] in ("drain", "drain1") and not op[2])
    for start, seg in segs:
        queued = False
        if not seg:
            continue
        if not all(_plain(o) for o in seg):
            # histories with enqueue_event / execute_queued_events: the specification with a pending list (proved for back)
            if (base in ("back", "back_fct") or mp11) and all(_qplain(o) for o in seg):
                queued = True
            else:
                continue
        if mp11 and not (_qbracketed(seg) if queued else _bracketed(seg)):
            continue
        if any(k >= len(impl) for k in range(start, start + len(seg))):
            continue
        if any(("ESC" in impl[start + i]) or any(l.startswith("BAD") for l in impl[start + i]) for i in range(len(seg))):
            continue
        inp = msmgen.sx_mdef(md, md_lib) + "\n" + "\n".join(msmgen.sx_op(o) for o in seg) + "\n"
        args = [corr.MODEL, "qspec_mp11" if mp11 else "qspec", str(pol)] if queued else [corr.MODEL, "spec", "1" if mp11 else "0", str(pol)]
        pr = subprocess.run(args, input=inp, capture_output=True, text=True, timeout=60)
        if pr.returncode != 0 or pr.stdout.startswith("NOTCORE"):
            stats.dist[("spec oracle", "outside the core fragment")] += 1
            continue
        blocks = [b.split("\n") for b in pr.stdout.split("--\n") if b.strip()]
        blocks = [[l for l in b if l] for b in blocks]
        stats.dist[("spec oracle", "histories with stored events compared" if queued else "histories compared")] += 1
        for i, sb in enumerate(blocks):
            if i >= len(seg):
                break
            ib = impl[start + i]
            s_items = [l for l in sb if parse(l)]
            i_items = [l for l in ib if parse(l)]
            s_snap = [l for l in sb if l.startswith("SNAP ")]
            i_snap = [l for l in ib if l.startswith("SNAP ")]
            stats.nontrivial.add(("spec", tuple(s_items[:3]), len(s_items)))
            if s_items != i_items:
                j = next((x for x in range(max(len(s_items), len(i_items))) if x >= len(s_items) or x >= len(i_items) or s_items[x] != i_items[x]), 0)
                out.append("op %d %s: behaviour invocations differ from the specification (Spec.v) at position %d: library %s, specified %s"
                           % (start + i, seg[i][0], j, i_items[j] if j < len(i_items) else "nothing more", s_items[j] if j < len(s_items) else "nothing more"))
                break
            if s_snap != i_snap:
                out.append("op %d %s: reported configuration %s, specified %s" % (start + i, seg[i][0], i_snap, s_snap))
                break
            rh = [l for l in sb if l.startswith("RH ")]
            if rh:
                _, h, rj = rh[0].split()
                code = result_of(ib)
                okc = (code in (1, 3)) if h == "1" else (code == (2 if rj == "1" else 0))
                if not okc:
                    out.append("op %d process: result code %s, specified handled=%s rejected=%s" % (start + i, code, h, rj))
                    break
        if out:
            break
    return out

def both(*mons):
    def m(md_lib, cfg, ops, impl, stats, r=None):
        out = []
        for f in mons:
            if f is not None:
                out += f(md_lib, cfg, ops, impl, stats, r)
        return out
    return m


# ---- C17 / C19: flags inside behaviours ------------------------------------------------------------------
def mon_flags_inside(md_lib, cfg, ops, impl, stats, r=None):
    """is_flag_active (OR) asked from inside a behaviour of the outermost machine follows the active state the machine
    reports for the transitioning region at that moment: while a behaviour of a taken transition still reads the source
    id, the flags are those before the event; once it reads the target id, those after it.  Applied to process_event
    calls (behaviours only observe) in which exactly one row of the outermost machine is taken and nothing else runs at
    that level; needs binaries built with -DH_FLAGOBS ('#FL' comment lines)."""
    raw = (r or {}).get("impl_raw") or []
    out = []
    rows = rows_by_id(md_lib)
    def flagvec(block):
        v = {}
        for l in block:
            if l.startswith("FLAG "):
                p_ = l.split()
                v[int(p_[1])] = p_[2].split("=")[1]
        return "".join(v[k] for k in sorted(v))
    prev = None
    for k, block in enumerate(raw):
        op = ops[k] if k < len(ops) else None
        cur = flagvec(block)
        if op and op[0] == "process" and not op[4] and prev is not None and cur and len(cur) == len(prev) and "ESC" not in block:
            items = []
            for idx, l in enumerate(block):
                x = parse(l)
                if x and x["path"] == "r" and idx + 1 < len(block) and block[idx + 1].startswith("#FL "):
                    items.append((x, block[idx + 1].split()[3] if len(block[idx + 1].split()) > 3 else ""))
            taken = [x for x, _ in items if x["tag"] in ("X", "MX")]
            entered = [x for x, _ in items if x["tag"] in ("N", "MN")]
            all_r = [parse(l) for l in block if parse(l)]
            same_occ = all((x["ety"], x["pay"]) == (op[1], op[2]) for x in all_r)
            n_exit_r = len([x for x in all_r if x["tag"] == "X" and x["path"] == "r"]) + len([x for x in all_r if x["tag"] == "MX" and x["path"].count(".") == 1])
            inner_rows = [x for x in all_r if x["tag"] in ("G1", "A") and x["path"] != "r"]
            if same_occ and n_exit_r == 1 and not inner_rows:
                # the transitioning region's source / target ids, from the exit / entry items of this level
                src = next((x["id"] if x["tag"] == "X" else int(x["path"].split(".")[1]) for x in all_r
                            if (x["tag"] == "X" and x["path"] == "r") or (x["tag"] == "MX" and x["path"].count(".") == 1)), None)
                tgt = next((x["id"] if x["tag"] == "N" else int(x["path"].split(".")[1]) for x in all_r
                            if (x["tag"] == "N" and x["path"] == "r") or (x["tag"] == "MN" and x["path"].count(".") == 1)), None)
                if src is None or tgt is None or src == tgt:
                    prev = cur if cur else prev
                    continue
                region = md_lib["states"][src]["zone"] if 0 <= src < len(md_lib["states"]) else None
                for x, bits in items:
                    if region is None or region >= len(x["obs"]) or x["tag"] in ("G0", "NT", "EC") or len(bits) != len(cur):
                        continue
                    seen = x["obs"][region]
                    exp = prev if seen == src else cur if seen == tgt else None
                    if seen == tgt and 0 <= tgt < len(md_lib["states"]) and md_lib["states"][tgt]["sub"] is not None and x["tag"] not in ("N", "MN"):
                        # the target is a submachine that has not been entered yet: what its regions still hold from the
                        # last visit is not a configuration the property speaks about
                        continue
                    if exp is None:
                        continue
                    stats.nontrivial.add(("flags-inside", x["tag"], seen == src))
                    stats.dist[("flags asked inside a behaviour", "source reported" if seen == src else "target reported")] += 1
                    if bits != exp:
                        out.append("op %d: behaviour %s %d of the outermost machine reads id %d (%s) for region %d, is_flag_active answers %s, the flags of that configuration are %s"
                                   % (k, x["tag"], x["id"], seen, "source" if seen == src else "target", region, bits, exp))
                        break
        if cur:
            prev = cur
        if out:
            break
    return out

# ---- C03 ---------------------------------------------------------------------------------------------
def mon_C03(md_lib, cfg, ops, impl, stats, r=None):
    out = []
    res_ = r
    ledger = collections.Counter()
    started = False
    for k, block in enumerate(impl):
        op = ops[k] if k < len(ops) else None
        if any(l == "ESC" or l.startswith("EC ") for l in block):
            return out       # exceptions: the ledger part of the property does not apply
        if op and op[0] == "reset":
            ledger = collections.Counter()     # a fresh object
            started = False
            continue
        if op and op[0] == "start" and started and not cfg.startswith("mp11"):
            return out       # back / back11 run start() of a started machine again: outside the ledger's histories
        for l in block:
            p = parse(l)
            if not p:
                continue
            if p["tag"] in ("N", "X"):
                key = (p["path"], p["id"])
            elif p["tag"] in ("MN", "MX"):
                key = tuple(p["path"].rsplit(".", 1)) if "." in p["path"] else ("", "root")
                key = (key[0], int(key[1])) if key[1] != "root" else key
            else:
                continue
            if p["tag"] in ("N", "MN"):
                ledger[key] += 1
                if ledger[key] > 1:
                    out.append("op %d: %s entered twice without exit" % (k, key))
            else:
                ledger[key] -= 1
                if ledger[key] < 0:
                    out.append("op %d: %s exited without entry" % (k, key))
        if op and op[0] == "start":
            started = True
        if op and op[0] == "stop":
            started = False
            live = [key for key, v in ledger.items() if v != 0]
            if live:
                out.append("op %d: after stop() still entered: %s" % (k, live[:4]))
            continue
        if not started:
            continue
        snaps = snaps_of(block)
        active = set()
        for path, ids in snaps.items():
            m = machine_at(md_lib, path)
            if m is None:
                out.append("op %d: snapshot names a path %s that is not a submachine" % (k, path)); continue
            if len(ids) != len(m["inits"]):
                out.append("op %d: %s reports %d active ids for %d regions" % (k, path, len(ids), len(m["inits"])))
            for r, s in enumerate(ids):
                if s >= len(m["states"]) or m["states"][s]["zone"] != r:
                    out.append("op %d: %s region %d active id %d is not a state of that region" % (k, path, r, s))
                active.add((path, s))
        # the other introspection calls agree with the reported ids (comment lines printed by the harness under
        # -DH_INTROSPECT): backmp11 is_state_active<S>() and the active-state visitor, back / back11 get_state_by_id
        raw = res_["impl_raw"][k] if res_ and "impl_raw" in res_ and k < len(res_["impl_raw"]) else []
        for l in raw:
            if l.startswith("#ACT "):
                _, path, rest = l.split(" ", 2)
                got = sorted(int(x) for x in rest.strip("[] ").split())
                stats.dist[("is_state_active answers checked",)] += 1
                if path in snaps and got != sorted(snaps[path]):
                    out.append("op %d: is_state_active<> names %s at %s, get_active_state_ids reports %s" % (k, got, path, snaps[path]))
            elif l.startswith("#VIS"):
                got = sorted(l.split()[1:])
                exp = sorted("%s:%d" % (pth, s) for pth, ids in snaps.items() for s in ids)
                stats.dist[("visitor sweeps checked",)] += 1
                if got != exp:
                    out.append("op %d: the active-state visitor visits %s, the reported configuration is %s" % (k, got, exp))
            elif l.startswith("#GSI "):
                t = l.split()
                stats.dist[("get_state_by_id answers checked",)] += 1
                if any(x != "1" for x in t[2:]):
                    out.append("op %d: get_state_by_id does not return the state object for some id of %s: %s" % (k, t[1], t[2:]))
        entered = {key for key, v in ledger.items() if v == 1 and key != ("", "root")}
        stats.nontrivial.add(("C03", frozenset(active)))
        if entered != active:
            out.append("op %d: entered-not-exited set %s differs from the reported active configuration %s"
                       % (k, sorted(entered - active)[:3], sorted(active - entered)[:3]))
    return out

# ---- C04 ---------------------------------------------------------------------------------------------
def mon_C04(md_lib, cfg, ops, impl, stats, r=None):
    return mon_C04_raw(r["impl_raw"], stats) if r and "impl_raw" in r else []

def mon_C04_raw(raw_blocks, stats):
    """between '#SUB>' and '#SUB<' (a process_event call issued from inside a behaviour) no behaviour may run"""
    out = []
    for k, block in enumerate(raw_blocks):
        depth = 0
        for l in block:
            if l.startswith("#SUB>"):
                depth += 1
                stats.dist[("submission-from-behaviour",)] += 1
            elif l.startswith("#SUB<"):
                depth -= 1
            elif depth > 0 and parse(l):
                out.append("op %d: behaviour %s ran inside a process_event call issued from a behaviour (re-entrant processing)" % (k, l))
                break
    return out

# ---- C12 ---------------------------------------------------------------------------------------------
def mon_C12(md_lib, cfg, ops, impl, stats, r=None):
    out = []
    for k, block in enumerate(impl):
        op = ops[k] if k < len(ops) else None
        if not op or op[0] not in ("process", "drain", "drain1"):
            continue
        throws = [c for _, c in (op[4] if op[0] == "process" else op[2]) if c[0] == "throw"]
        ecs = [l for l in block if l.startswith("EC ")]
        if throws:
            stats.dist[("ops-with-planned-throw",)] += 1
        if ecs:
            stats.dist[("exception_caught", len(ecs))] += 1
            stats.nontrivial.add(("C12", k, tuple(block[:3])))
        if "ESC" in block:
            out.append("op %d: an exception escaped %s" % (k, op[0]))
        if len(ecs) > len(throws):
            out.append("op %d: exception_caught invoked %d times for %d planned throws" % (k, len(ecs), len(throws)))
    out += late_dispatch(ops, impl, stats)
    out += spurious_deferral(md_lib, ops, impl, stats)
    return out

def has_deferral(m):
    return any(st["defers"] for _, mm in msmgen.walk(m) for st in mm["states"]) or \
        any(r["act"] == "defer" for _, mm in msmgen.walk(m) for r in msmgen.all_rows(mm))

def spurious_deferral(md_lib, ops, impl, stats):
    """not wedged: in a machine without deferring states and Defer actions, an event given to process_event from
    outside while the machine is idle is never answered with the deferred bit"""
    if has_deferral(md_lib):
        return []
    out = []
    for k, op in enumerate(ops):
        if k >= len(impl) or op[0] != "process":
            continue
        res = [int(l.split()[1]) for l in impl[k] if l.startswith("R ")]
        if res and (res[-1] & 4) and not any(l.startswith("BAD") for l in impl[k]):
            out.append("op %d: process_event(e%d, payload %d) returned %d (deferred) although no state of the machine "
                       "defers events and the machine was idle: the event is parked, the machine was wedged"
                       % (k, op[1], op[2], res[-1]))
            break
    return out

def submitted_pairs(op):
    """(event type, payload) pairs an operation submits (itself or through its plan)"""
    out = []
    if op[0] == "on":
        return submitted_pairs(op[2])
    if op[0] in ("process", "enqueue"):
        out.append((op[1], op[2]))
    plan = op[4] if op[0] == "process" else (op[2] if op[0] in ("start", "drain", "drain1") else (op[1] if op[0] == "stop" else []))
    for _, c in plan:
        if c[0] in ("proc", "enq"):
            out.append((c[1], c[2]))
    return out

def late_dispatch(ops, impl, stats):
    """not wedged: an event given to process_event from outside while the machine is idle, whose result does not carry
    the deferred bit, is dealt with inside that call - no behaviour may see that occurrence in a later operation"""
    out = []
    counts = collections.Counter(p for op in ops for p in submitted_pairs(op))
    for k, op in enumerate(ops):
        if k >= len(impl) or op[0] != "process" or counts[(op[1], op[2])] != 1:
            continue
        res = [int(l.split()[1]) for l in impl[k] if l.startswith("R ")]
        if not res or (res[-1] & 4) or any(l.startswith("BAD") for l in impl[k]):
            continue
        tag = " e%d p%d " % (op[1], op[2])
        stats.dist[("late-dispatch-checked",)] += 1
        for j in range(k + 1, len(impl)):
            if ops[j][0] in ("reset", "copy", "assign", "move", "saveload", "on"):
                break
            hit = next((l for l in impl[j] if l[:2] in ("G0", "G1", "A ", "N ", "X ", "MN", "MX", "NT") and tag in l + " "), None)
            if hit:
                out.append("op %d: process_event(e%d, payload %d) returned %d (not deferred) while the machine was idle, "
                           "but the occurrence is dispatched only during op %d (%s): the machine was wedged"
                           % (k, op[1], op[2], res[-1], j, hit))
                break
    return out

# ---- C15 / C16 --------------------------------------------------------------------------------------
def snaps_by_object(block):
    out = collections.defaultdict(list)
    for l in block:
        if l.startswith("SNAP"):
            tag = l.split(" ", 1)[0]
            out[0 if tag == "SNAP" else int(tag.split("@")[1])].append(l.split(" ", 1)[1])
    return out

def op_target(op):
    if op[0] == "on":
        return {op[1]}
    if op[0] in ("copy", "assign", "saveload"):
        return {op[1]}
    if op[0] == "move":
        return {op[1], op[2]}
    return {0}

def mon_C15(md_lib, cfg, ops, impl, stats, r=None):
    """an operation on one machine object never changes what another object reports, and a copy / loaded object
    reports exactly what its source reports at that moment"""
    out = []
    prev = None
    for k, block in enumerate(impl):
        op = ops[k] if k < len(ops) else None
        cur = snaps_by_object(block)
        if op and prev is not None:
            tg = op_target(op)
            for obj, snap in prev.items():
                if obj not in tg and cur.get(obj) != snap:
                    out.append("op %d %s: object %d changed from %s to %s although the operation addressed object(s) %s"
                               % (k, op[0], obj, snap, cur.get(obj), sorted(tg)))
            if op[0] in ("copy", "assign", "saveload") and cur.get(op[1]) != cur.get(op[2]):
                out.append("op %d %s: object %d reports %s, its source %d reports %s" % (k, op[0], op[1], cur.get(op[1]), op[2], cur.get(op[2])))
            if op[0] in ("copy", "assign", "move", "saveload"):
                stats.nontrivial.add((op[0], tuple(cur.get(op[1], []))))
                stats.dist[("object-op", op[0])] += 1
        prev = cur
    # front-end data (journal of machine entries, a heap-allocated label) of every machine of the tree: a copy has the
    # source's, a move-constructed object has what the source had before the move
    raw = (r or {}).get("impl_raw") or []
    prevd = None
    for k, block in enumerate(raw):
        op = ops[k] if k < len(ops) else None
        d = {}
        for l in block:
            if l.startswith("#FDATA "):
                _, obj, rest = l.split(" ", 2)
                d.setdefault(obj, []).append(rest)
        if op and op[0] in ("copy", "assign") and str(op[1]) in d and str(op[2]) in d:
            stats.dist[("front-end data compared", op[0])] += 1
            if d[str(op[1])] != d[str(op[2])]:
                out.append("op %d %s: front-end data of object %d is %s, of its source %d it is %s" % (k, op[0], op[1], d[str(op[1])], op[2], d[str(op[2])]))
        if op and op[0] == "move" and prevd is not None and str(op[1]) in d and str(op[2]) in prevd:
            stats.dist[("front-end data compared", "move")] += 1
            if d[str(op[1])] != prevd[str(op[2])]:
                out.append("op %d move: front-end data of the move-constructed object %d is %s, the source %d held %s" % (k, op[1], d[str(op[1])], op[2], prevd[str(op[2])]))
        prevd = d
    return out

# ---- C16 --------------------------------------------------------------------------------------------
def data_by_object(raw_block):
    """'#DATA <obj> <path> [ hits... ]' lines (obj = object number, or B for the object loaded from the binary archive)"""
    out = {}
    for l in raw_block:
        if l.startswith("#DATA "):
            _, obj, rest = l.split(" ", 2)
            out.setdefault(obj, []).append(rest)
    return out

def mon_C16(md_lib, cfg, ops, impl, stats, r=None):
    """mon_C15, and: the data every state opted into serialization with (its entry counter) is the same in the loaded
    object as in the saved one, for every state of every machine of the tree - active or not -, in both archive formats"""
    out = mon_C15(md_lib, cfg, ops, impl, stats, r)
    raw = (r or {}).get("impl_raw") or []
    for k, block in enumerate(raw):
        op = ops[k] if k < len(ops) else None
        if not op or op[0] != "saveload":
            continue
        d = data_by_object(block)
        src, dst = d.get(str(op[2])), d.get(str(op[1]))
        if src is None or dst is None:
            continue
        stats.dist[("state data compared after load", "nonzero" if any(any(c not in "[ ]0" for c in x.split(" ", 1)[1]) for x in src) else "all zero")] += 1
        if dst != src:
            out.append("op %d saveload: opted-in state data of the loaded object %d is %s, of the saved object %d it is %s" % (k, op[1], dst, op[2], src))
        if d.get("B") is not None and d.get("B") != src:
            out.append("op %d saveload: opted-in state data loaded from the binary archive is %s, saved was %s" % (k, d.get("B"), src))
    return out

# ---- C13 --------------------------------------------------------------------------------------------
# ---- state ids are numbered per engine: for comparisons across configurations translate them (and the machine
# paths, which consist of state ids) back to declaration indices
def decl_path(libpath, ids):
    parts = libpath.split(".")
    out = ["r"]
    for p_ in parts[1:]:
        inv = {lib: decl for decl, lib in enumerate(ids[".".join(out)])}
        out.append(str(inv[int(p_)]))
    return ".".join(out)

def canon_block(block, ids):
    out = []
    for l in block:
        try:
            p = parse(l)
            if p:
                dp = decl_path(p["path"], ids)
                inv = {lib: decl for decl, lib in enumerate(ids[dp])}
                sid = inv.get(p["id"], p["id"]) if p["tag"] in ("N", "X", "NT") else p["id"]
                obs = ",".join(str(inv.get(x, x)) for x in p["obs"])
                out.append("%s %s %d e%d p%d w%d [%s]" % (p["tag"], dp, sid, p["ety"], p["pay"], p["w"], obs))
            elif l.startswith("SNAP"):
                tag, path, lst = l.split(" ", 2)
                dp = decl_path(path, ids)
                inv = {lib: decl for decl, lib in enumerate(ids[dp])}
                xs = [int(x) for x in lst.strip("[]").split(",")] if lst != "[]" else []
                out.append("%s %s [%s]" % (tag, dp, ",".join(str(inv.get(x, x)) for x in xs)))
            else:
                out.append(l)
        except Exception:
            out.append(l)
    return out

def proj_C13(block):
    """what must be identical across back-ends: every behaviour invocation with order and arguments, the active ids
    after the operation, and the handled / zero status"""
    out = []
    for l in block:
        p = parse(l)
        if p:
            out.append((p["tag"], p["path"], p["id"], p["ety"], p["pay"]))
        elif l.startswith("R "):
            c = int(l.split()[1])
            out.append(("status", "zero" if c == 0 else ("handled" if c & 1 else "not-handled")))
        elif l.startswith("SNAP") or l == "ESC":
            out.append(l)
    return out

# ---- known findings ------------------------------------------------------------------------------------
def is_known(prop, violation, findings):
    """a monitor violation is a known finding only if it comes from the pinned replay of that finding"""
    for kf in findings:
        if kf["kind"] == "known" and prop in kf["properties"] and violation.get("machine") == kf["id"]:
            return True
    return False
