"""msmgen.py - machine definitions as data; emit them as (a) an s-expression for the extracted Coq model,
(b) a C++ translation unit instantiating the real library; operations in both formats.

Machine representation (plain dicts / lists so it can be stored as JSON):
  mdef    = {"parents": [None|int,...], "root": machine, "nevents": int}
  machine = {"states": [state...], "inits": [sid...], "rows": [row...], "irows": [row...], "hist": "none"|"always"|["shallow", e...]}
  state   = {"kind": "simple"|"term"|["intr", e...]|"entrypt"|["exitpt", e]|"sub", "sub": machine|None,
             "sirows": [row...], "defers": [e...], "flags": [f...], "zone": int}
  row     = {"id": int, "src": sid, "trig": ["ev", e]|"any"|"none", "tgt": "none"|["state", s]|["direct", s, [subs]]|["entrypt", s, p],
             "guard": bool, "act": "none"|"call"|"defer", "exitpt": None|int}
State ids are *declaration* indices; the library's numbering is read back from the compiled harness (--ids)
and the definition is renumbered before it is handed to the model.
Event types: 0 none(completion) 1 init 2 exit 3 any; user events start at 4.
"""
import copy, json

EV_FIRST_USER = 4

# ----------------------------------------------------------------------------------------------
# constructors
def row(id, src, trig, tgt="none", guard=False, act="none", exitpt=None):
    if isinstance(trig, int):
        trig = ["ev", trig]
    if isinstance(tgt, int):
        tgt = ["state", tgt]
    return {"id": id, "src": src, "trig": trig, "tgt": tgt, "guard": guard, "act": act, "exitpt": exitpt}

def state(kind="simple", sub=None, sirows=None, defers=None, flags=None, zone=0):
    if sub is not None:
        kind = "sub"
    return {"kind": kind, "sub": sub, "sirows": sirows or [], "defers": defers or [], "flags": flags or [], "zone": zone}

def machine(states, inits, rows, irows=None, hist="none"):
    return {"states": states, "inits": inits, "rows": rows, "irows": irows or [], "hist": hist}

def mdef(root, nevents, parents=None):
    ps = [None] * (EV_FIRST_USER + nevents)
    for k, v in (parents or {}).items():
        ps[int(k)] = v
    return {"parents": ps, "root": root, "nevents": nevents}

# ----------------------------------------------------------------------------------------------
# traversal helpers
def walk(m, path=()):
    """yield (path, machine) for the machine and all nested submachines, parents first"""
    yield path, m
    for i, st in enumerate(m["states"]):
        if st["sub"] is not None:
            yield from walk(st["sub"], path + (i,))

def pname(path):
    return "r" + "".join("_%d" % i for i in path)

def pstr(path):
    return ".".join(["r"] + [str(i) for i in path])

def all_rows(m):
    for r in m["rows"]:
        yield r
    for r in m["irows"]:
        yield r
    for st in m["states"]:
        for r in st["sirows"]:
            yield r

def user_events(md):
    return list(range(EV_FIRST_USER, EV_FIRST_USER + md["nevents"]))

# ----------------------------------------------------------------------------------------------
# renumbering to library ids
def renumber(m, idmaps, path=()):
    """idmaps: {pstr(path): [lib id for decl index ...]} -> new machine whose state list is in library order"""
    ids = idmaps[pstr(path)]
    n = len(m["states"])
    assert sorted(ids) == list(range(n)), (pstr(path), ids)
    f = lambda s: ids[s]
    def frow(r):
        r = copy.deepcopy(r)
        r["src"] = f(r["src"])
        t = r["tgt"]
        if t != "none":
            if t[0] == "state":
                r["tgt"] = ["state", f(t[1])]
            elif t[0] == "direct":
                sub_ids = idmaps[pstr(path + (t[1],))]
                r["tgt"] = ["direct", f(t[1]), [sub_ids[x] for x in t[2]]]
            elif t[0] == "entrypt":
                sub_ids = idmaps[pstr(path + (t[1],))]
                r["tgt"] = ["entrypt", f(t[1]), sub_ids[t[2]]]
        if r["exitpt"] is not None:
            sub_ids = idmaps[pstr(path + (r_src_decl(r, m),))]
            r["exitpt"] = sub_ids[r["exitpt"]]
        return r
    def r_src_decl(r, m):
        # inverse of f for the (already mapped) source
        return ids.index(r["src"])
    new_states = [None] * n
    for i, st in enumerate(m["states"]):
        ns = {k: copy.deepcopy(v) for k, v in st.items() if k not in ("sub", "sirows")}
        ns["sirows"] = [frow(r) for r in st["sirows"]]
        ns["sub"] = None
        new_states[f(i)] = (ns, st["sub"], i)
    out_states = []
    for lib, (ns, sub, decl) in enumerate(new_states):
        if sub is not None:
            ns["sub"] = renumber(sub, idmaps, path + (decl,))
        out_states.append(ns)
    return {"states": out_states, "inits": [f(s) for s in m["inits"]],
            "rows": [frow(r) for r in m["rows"]], "irows": [frow(r) for r in m["irows"]], "hist": m["hist"]}

def renumber_paths(m, idmaps, path=(), newpath=()):
    """map from declaration path string to library path string"""
    out = {pstr(path): pstr(newpath)}
    ids = idmaps[pstr(path)]
    for i, st in enumerate(m["states"]):
        if st["sub"] is not None:
            out.update(renumber_paths(st["sub"], idmaps, path + (i,), newpath + (ids[i],)))
    return out

# ----------------------------------------------------------------------------------------------
# s-expression output (model input)
def sx_row(r):
    t = r["trig"]
    ts = "any" if t == "any" else "none" if t == "none" else "(ev %d)" % t[1]
    g = r["tgt"]
    if g == "none":
        gs = "none"
    elif g[0] == "state":
        gs = "(state %d)" % g[1]
    elif g[0] == "direct":
        gs = "(direct %d (%s))" % (g[1], " ".join(map(str, g[2])))
    else:
        gs = "(entrypt %d %d)" % (g[1], g[2])
    return "(row %d %d %s %s %d %s %s)" % (r["id"], r["src"], ts, gs, 1 if r["guard"] else 0, r["act"],
                                           "nil" if r["exitpt"] is None else str(r["exitpt"]))

def sx_machine(m):
    sts = []
    for st in m["states"]:
        k = st["kind"]
        if isinstance(k, list):
            ks = "(%s %s)" % (k[0], " ".join(map(str, k[1:]))) if k[0] == "intr" else "(exitpt %d)" % k[1]
        else:
            ks = k
        sts.append("(state %s %s (%s) (%s) (%s) %d)" % (
            ks, "nil" if st["sub"] is None else sx_machine(st["sub"]),
            " ".join(sx_row(r) for r in st["sirows"]), " ".join(map(str, st["defers"])),
            " ".join(map(str, st["flags"])), st["zone"]))
    h = m["hist"]
    hs = h if isinstance(h, str) else "(shallow %s)" % " ".join(map(str, h[1:]))
    return "(machine (%s) (%s) (%s) (%s) %s)" % (
        "\n ".join(sts), " ".join(map(str, m["inits"])), " ".join(sx_row(r) for r in m["rows"]),
        " ".join(sx_row(r) for r in m["irows"]), hs)

def sx_mdef(md, root=None):
    return "(mdef (%s)\n %s)" % (" ".join("nil" if p is None else str(p) for p in md["parents"]),
                                  sx_machine(root if root is not None else md["root"]))

# ----------------------------------------------------------------------------------------------
# operations: ("start", val, plan) ("stop", plan) ("process", ty, pay, val, plan) ("enqueue", ty, pay)
#             ("drain", val, plan) ("drain1", val, plan);  plan = [(idx, ("throw",)|("proc",ty,pay)|("enq",ty,pay))]
def sx_plan(plan):
    out = []
    for idx, c in plan:
        if c[0] == "throw":
            out.append("(%d throw)" % idx)
        else:
            out.append("(%d (%s (e %d %d)))" % (idx, c[0], c[1], c[2]))
    return "(" + " ".join(out) + ")"

def sx_op(op):
    k = op[0]
    nums = lambda l: "(" + " ".join(map(str, l)) + ")"
    if k == "start":
        return "(start %s %s)" % (nums(op[1]), sx_plan(op[2]))
    if k == "stop":
        return "(stop %s)" % sx_plan(op[1])
    if k == "process":
        return "(process (e %d %d) %s %s)" % (op[1], op[2], nums(op[3]), sx_plan(op[4]))
    if k == "enqueue":
        return "(enqueue (e %d %d))" % (op[1], op[2])
    if k in ("drain", "drain1"):
        return "(%s %s %s)" % (k, nums(op[1]), sx_plan(op[2]))
    if k == "reset":
        return "(reset)"
    if k == "on":
        return "(on %d %s)" % (op[1], sx_op(op[2]))
    if k in ("copy", "assign", "move", "saveload"):
        return "(%s %d %d)" % (k, op[1], op[2])
    raise ValueError(op)

def txt_plan(plan):
    out = []
    for idx, c in plan:
        if c[0] == "throw":
            out.append("%d:t" % idx)
        elif c[0] == "proc":
            out.append("%d:p:%d:%d" % (idx, c[1], c[2]))
        else:
            out.append("%d:q:%d:%d" % (idx, c[1], c[2]))
    return " ".join(out)

def txt_op(op):
    k = op[0]
    nums = lambda l: " ".join(map(str, l))
    if k == "start":
        return "S | %s | %s" % (nums(op[1]), txt_plan(op[2]))
    if k == "stop":
        return "T | | %s" % txt_plan(op[1])
    if k == "process":
        return "P %d %d | %s | %s" % (op[1], op[2], nums(op[3]), txt_plan(op[4]))
    if k == "enqueue":
        return "Q %d %d | |" % (op[1], op[2])
    if k == "drain":
        return "D | %s | %s" % (nums(op[1]), txt_plan(op[2]))
    if k == "drain1":
        return "D1 | %s | %s" % (nums(op[1]), txt_plan(op[2]))
    if k == "reset":
        return "RESET | |"
    if k == "on":
        return "@%d %s" % (op[1], txt_op(op[2]))
    if k in ("copy", "assign", "move", "saveload"):
        return "%s %d %d | |" % (k.upper(), op[1], op[2])
    raise ValueError(op)

# ----------------------------------------------------------------------------------------------
# C++ output
CFGS = {
    # name: (backend, fct, policy, qbefore, C++ traits, extra defines)
    "back":        ("back", 0, "CBack"),
    "back_fct":    ("back", 1, "CBackFct"),
    "back11":      ("back11", 0, "CBack11"),
    "mp11":        ("mp11", 0, "CMp11"),
    "mp11_fpa":    ("mp11", 0, "CMp11Fpa"),
    "mp11_fct":    ("mp11", 1, "CMp11Fct"),
}
POLICIES = ["msm::active_state_switch_after_entry", "msm::active_state_switch_after_transition_action",
            "msm::active_state_switch_after_exit", "msm::active_state_switch_before_transition"]

def cxx_hist_back(h):
    if h == "none":
        return "HistNone"
    if h == "always":
        return "HistAlways"
    return "HistShallow<%s>" % ", ".join("Ev%d" % e for e in h[1:])

def cxx_hist_front(h):
    if h == "none":
        return "msm::front::no_history"
    if h == "always":
        return "msm::front::always_shallow_history"
    return "msm::front::shallow_history<%s>" % ", ".join("Ev%d" % e for e in h[1:])

def state_type(path, i, st):
    """C++ type expression naming state i of the machine at path, usable inside Def<C>"""
    if st["sub"] is not None:
        return "M_%s" % pname(path + (i,))
    return "S_%s_%d" % (pname(path), i)

def trig_cxx_type(r):
    t = r["trig"]
    return "KleeneEv" if t == "any" else "none" if t == "none" else "Ev%d" % t[1]

def gen_cxx(md, policy=0, introspect=False, frontend="functor"):
    """frontend: how the rows are written - "functor" (Row<> / Internal<> with functor behaviours), "basic" (row / a_row /
    g_row / _row / irow family with member functions of the front-end; internal tables with internal<> / a_internal<> ...
    called on the machine), "row2" (row2 / a_row2 / g_row2 / _row2 / irow2 family; behaviours are member functions of the
    source state where it is a simple state of the machine, otherwise of the front-end)"""
    L = []
    w = L.append
    evs = user_events(md)
    w("// generated by harness/msmgen.py - do not edit")
    w("#include \"prelude.hpp\"")
    if frontend != "functor":
        w("#include <boost/msm/front/row2.hpp>")
        w("#include <boost/msm/front/internal_row.hpp>")
    # events
    for e in evs:
        p = md["parents"][e]
        if p is None:
            w("struct Ev%d : H::EvB { Ev%d(int p = 0, int t = %d) : H::EvB{t, p} {} template <class O, class = std::enable_if_t<std::is_base_of_v<H::EvB, O> && !std::is_same_v<Ev%d, O>>> Ev%d(O const& o) : H::EvB{%d, o.pay} {} };" % (e, e, e, e, e, e))
        else:
            # every event type converts from every other one, a derived one included (no slicing: the converted object carries its own type id; exit pseudo states convert the event they are entered with)
            w("struct Ev%d : Ev%d { Ev%d(int p = 0, int t = %d) : Ev%d(p, t) {} template <class O, class = std::enable_if_t<std::is_base_of_v<H::EvB, O> && !std::is_same_v<Ev%d, O>>> Ev%d(O const& o) : Ev%d(o.pay, %d) {} };" % (e, p, e, e, p, e, e, p, e))
    w("#define H_EVENTS(X) " + " ".join("X(%d)" % e for e in evs))
    w("#include \"prelude2.hpp\"")
    flags = sorted({f for _, m in walk(md["root"]) for st in m["states"] for f in st["flags"]})
    nflags = (max(flags) + 1) if flags else 0
    w("#define H_FLAGS(X) " + " ".join("X(%d)" % f for f in range(nflags)))
    if introspect:
        w("#include <algorithm>")
        w("namespace H {")
        w("// \"library path of the owning machine : library id\" of a state object handed to a visitor")
        w("inline std::string who(const char* ownerdecl, int decl) { return lp(ownerdecl) + \":\" + std::to_string(lib_id(ownerdecl, decl)); }")
        w("template <class S> std::string whoami(S const&) {")
        w("  if constexpr (requires { S::h_owner(); }) return who(S::h_owner(), S::h_decl());")
        w("  else { std::string p(S::path()); auto k = p.rfind('.'); std::string owner = p.substr(0, k); return who(owner.c_str(), std::atoi(p.c_str() + k + 1)); }")
        w("}")
        w("}")
    w("template <class C> struct Def {")
    machines = list(walk(md["root"]))
    # deepest first so that submachine back-end types are complete when used
    for path, m in sorted(machines, key=lambda pm: -len(pm[0])):
        name = pname(path)
        w("  // ---- machine %s" % pstr(path))
        w("  struct F_%s : msm::front::state_machine_def<F_%s> {" % (name, name))
        w("    static const char* path() { return \"%s\"; }" % pstr(path))
        w("    typedef EvInit initial_event; typedef EvExit final_event;")
        w("    typedef %s active_state_switch_policy;" % POLICIES[policy])
        w("    using history = %s;" % cxx_hist_front(m["hist"]))
        if path:
            holder = md["root"]
            for k in path[:-1]:
                holder = holder["states"][k]["sub"]
            hst = holder["states"][path[-1]]
            if hst["flags"]:
                w("    typedef mpl::vector<%s> flag_list;" % ", ".join("Flag<%d>" % f for f in hst["flags"]))
            if hst["defers"]:
                w("    typedef mpl::vector<%s> deferred_events;" % ", ".join("Ev%d" % e for e in hst["defers"]))
        needs_defer = any(r["act"] == "defer" for r in all_rows(m))
        if needs_defer:
            w("    typedef int activate_deferred_events;")
        # front-end data that is not trivially movable (C15): one journal entry per entry of the machine
        w("#ifdef H_OBJDATA")
        w("    std::vector<int> h_journal; std::string h_label = \"%s-label-long-enough-to-live-on-the-heap\";" % name)
        w("#endif")
        w("    template <class E, class F> void on_entry(E const& e, F& f) { H_JOURNAL; H::cb(\"MN\", path(), 0, e, f); }")
        w("    template <class E, class F> void on_exit(E const& e, F& f) { H::cb(\"MX\", path(), 0, e, f); }")
        w("    template <class F, class E> void no_transition(E const& e, F& f, int s) { H::cb(\"NT\", path(), s, e, f); }")
        w("    template <class F, class E> void exception_caught(E const& e, F& f, std::exception&) { H::cb(\"EC\", path(), 0, e, f); }")
        # member-function behaviours of the basic / row2 front-ends
        me = "typename Def::M_%s" % name
        def fsm_methods(r):
            out = []
            if r["act"] == "call":
                out.append("    void a%d(%s const& e) { H::cb(\"A\", path(), %d, e, static_cast<%s&>(*this)); }" % (r["id"], trig_cxx_type(r), r["id"], me))
            if r["guard"]:
                out.append("    bool g%d(%s const& e) { return H::guard(path(), %d, e, static_cast<%s&>(*this)); }" % (r["id"], trig_cxx_type(r), r["id"], me))
            return out
        def state_methods(r):
            out = []
            if r["act"] == "call":
                out.append("      void a%d(%s const& e) { H::cb_nf(\"A\", \"%s\", %d, e); }" % (r["id"], trig_cxx_type(r), pstr(path), r["id"]))
            if r["guard"]:
                out.append("      bool g%d(%s const& e) { return H::guard_nf(\"%s\", %d, e); }" % (r["id"], trig_cxx_type(r), pstr(path), r["id"]))
            return out
        def on_state(r):
            """row2: is the behaviour a member of the row's source state (a simple state object of this machine)"""
            if frontend != "row2" or r["exitpt"] is not None:
                return False      # "row2f": the row2 family with every behaviour a member of the front-end (backmp11 keeps its
                                  # states in a std::tuple, which row2's fusion::at_key lookup of a state object does not accept)
            st = m["states"][r["src"]]
            return st["sub"] is None and st["kind"] in ("simple", "term") and r["id"] % 2 == 0
        def called(r):
            return "S_%s_%d" % (name, r["src"]) if on_state(r) else "F_%s" % name
        def internal_row(r, owner):
            """an entry of an internal_transition_table written with the internal<> family; owner = class whose members are called"""
            a, g = r["act"] == "call", r["guard"]
            if r["act"] == "defer":
                raise ValueError("Defer is a functor action")
            if a and g:
                return "msm::front::internal<%s, %s, &%s::a%d, %s, &%s::g%d>" % (cxx_trig(r), owner, owner, r["id"], owner, owner, r["id"])
            if a:
                return "msm::front::a_internal<%s, %s, &%s::a%d>" % (cxx_trig(r), owner, owner, r["id"])
            if g:
                return "msm::front::g_internal<%s, %s, &%s::g%d>" % (cxx_trig(r), owner, owner, r["id"])
            return "msm::front::_internal<%s>" % cxx_trig(r)
        if frontend != "functor":
            for r in m["rows"]:
                if not on_state(r):
                    for l in fsm_methods(r):
                        w(l)
            for r in m["irows"]:
                for l in fsm_methods(r):
                    w(l)
            if frontend in ("basic", "row2f"):
                for st in m["states"]:
                    if st["sub"] is None:
                        for r in st["sirows"]:
                            for l in fsm_methods(r):
                                w(l)
        # states
        for i, st in enumerate(m["states"]):
            if st["sub"] is not None:
                continue
            k = st["kind"]
            if k == "simple":
                base = "msm::front::state<>"
            elif k == "term":
                base = "msm::front::terminate_state<>"
            elif isinstance(k, list) and k[0] == "intr":
                base = "msm::front::interrupt_state<mpl::vector<%s> >" % ", ".join("Ev%d" % e for e in k[1:])
            elif k == "entrypt":
                base = "msm::front::entry_pseudo_state<%d>" % st["zone"]
            elif isinstance(k, list) and k[0] == "exitpt":
                base = "msm::front::exit_pseudo_state<Ev%d>" % k[1]
            elif k == "explicit":
                base = "msm::front::state<>, msm::front::explicit_entry<%d>" % st["zone"]
            else:
                raise ValueError(k)
            if st.get("explicit"):
                base = "msm::front::state<>, msm::front::explicit_entry<%d>" % st["zone"]
            if st.get("explicit_auto"):
                # region index left to the library's inference (back / back11: find_region_id<-1> walks the table)
                base = "msm::front::state<>, msm::front::explicit_entry<>"
            w("    struct S_%s_%d : %s {" % (name, i, base))
            if st["defers"]:
                w("      typedef mpl::vector<%s> deferred_events;" % ", ".join("Ev%d" % e for e in st["defers"]))
            if st["flags"]:
                w("      typedef mpl::vector<%s> flag_list;" % ", ".join("Flag<%d>" % f for f in st["flags"]))
            if introspect:
                w("      static const char* h_owner() { return \"%s\"; } static int h_decl() { return %d; }" % (pstr(path), i))
            # data a state opts into serialization with (C16): the number of times it was entered
            w("#ifdef H_SERIALIZE")
            w("      int h_hits = 0; typedef int do_serialize;")
            w("      template <class Ar> void serialize(Ar& ar, const unsigned int) { ar & h_hits; }")
            w("#endif")
            w("      template <class E, class F> void on_entry(E const& e, F& f) { H_HIT; H::cb(\"N\", F::path(), H::lib_id(F::path(), %d), e, f); }" % i)
            w("      template <class E, class F> void on_exit(E const& e, F& f) { H::cb(\"X\", F::path(), H::lib_id(F::path(), %d), e, f); }" % i)
            if frontend == "row2":
                for r in st["sirows"] + [x for x in m["rows"] if x["src"] == i and on_state(x)]:
                    for l in state_methods(r):
                        w(l)
            if st["sirows"]:
                w("      struct internal_transition_table : mpl::vector<")
                if frontend == "functor":
                    w(",\n".join("        msm::front::Internal<%s, %s, %s>" % (cxx_trig(r), cxx_act(r), cxx_guard(r)) for r in st["sirows"]))
                elif frontend in ("basic", "row2f"):
                    w(",\n".join("        " + internal_row(r, "F_%s" % name) for r in st["sirows"]))
                else:
                    w(",\n".join("        " + internal_row(r, "S_%s_%d" % (name, i)) for r in st["sirows"]))
                w("      > {};")
            w("    };")
        # submachine back-end types
        for i, st in enumerate(m["states"]):
            if st["sub"] is not None:
                w("    typedef typename Def::M_%s M_%s;" % (pname(path + (i,)), pname(path + (i,))))
        sty = lambda s: state_type(path, s, m["states"][s])
        w("    typedef mpl::vector<%s> initial_state;" % ", ".join(sty(s) for s in m["inits"]))
        def tgt_type(r):
            t = r["tgt"]
            if t == "none":
                return "none"
            if t[0] == "state":
                return sty(t[1])
            subname = pname(path + (t[1],))
            if t[0] == "direct":
                parts = ["typename M_%s::template direct<typename Def::F_%s::S_%s_%d>" % (subname, subname, subname, x) for x in t[2]]
                return parts[0] if len(parts) == 1 else "mpl::vector<%s>" % ", ".join(parts)
            return "typename M_%s::template entry_pt<typename Def::F_%s::S_%s_%d>" % (subname, subname, subname, t[2])
        def src_type(r):
            if r["exitpt"] is not None:
                subname = pname(path + (r["src"],))
                return "typename M_%s::template exit_pt<typename Def::F_%s::S_%s_%d>" % (subname, subname, subname, r["exitpt"])
            return sty(r["src"])
        def basic_row(r):
            a, g, internal = r["act"] == "call", r["guard"], r["tgt"] == "none"
            if r["act"] == "defer":
                raise ValueError("Defer is a functor action")
            base = "typename msm::front::state_machine_def<F_%s>::template " % name
            fa, fg = "&F_%s::a%d" % (name, r["id"]), "&F_%s::g%d" % (name, r["id"])
            if internal:
                kind = "irow" if a and g else "a_irow" if a else "g_irow" if g else "_irow"
                args = [src_type(r), cxx_trig(r)]
            else:
                kind = "row" if a and g else "a_row" if a else "g_row" if g else "_row"
                args = [src_type(r), cxx_trig(r), tgt_type(r)]
            return base + kind + "<" + ", ".join(args + ([fa] if a else []) + ([fg] if g else [])) + ">"
        def row2_row(r):
            a, g, internal = r["act"] == "call", r["guard"], r["tgt"] == "none"
            if r["act"] == "defer":
                raise ValueError("Defer is a functor action")
            c = called(r)
            ca, cg = [c, "&%s::a%d" % (c, r["id"])], [c, "&%s::g%d" % (c, r["id"])]
            if internal:
                if not a and not g:
                    return "typename msm::front::state_machine_def<F_%s>::template _irow<%s, %s>" % (name, src_type(r), cxx_trig(r))
                kind = "irow2" if a and g else "a_irow2" if a else "g_irow2"
                args = [src_type(r), cxx_trig(r)]
            else:
                kind = "row2" if a and g else "a_row2" if a else "g_row2" if g else "_row2"
                args = [src_type(r), cxx_trig(r), tgt_type(r)]
            return "msm::front::" + kind + "<" + ", ".join(args + (ca if a else []) + (cg if g else [])) + ">"
        w("    struct transition_table : mpl::vector<")
        if frontend == "functor":
            w(",\n".join("      Row<%s, %s, %s, %s, %s>" % (src_type(r), cxx_trig(r), tgt_type(r), cxx_act(r), cxx_guard(r)) for r in m["rows"]))
        elif frontend == "basic":
            w(",\n".join("      " + basic_row(r) for r in m["rows"]))
        else:
            w(",\n".join("      " + row2_row(r) for r in m["rows"]))
        w("    > {};")
        if m["irows"]:
            w("    struct internal_transition_table : mpl::vector<")
            if frontend == "functor":
                w(",\n".join("      msm::front::Internal<%s, %s, %s>" % (cxx_trig(r), cxx_act(r), cxx_guard(r)) for r in m["irows"]))
            else:
                w(",\n".join("      " + internal_row(r, "F_%s" % name) for r in m["irows"]))
            w("    > {};")
        expl = [i for i, st in enumerate(m["states"]) if st.get("explicit_creation")]
        if expl:
            w("    typedef mpl::vector<%s> explicit_creation;" % ", ".join(sty(s) for s in expl))
        w("  };")
        w("  typedef typename C::template sm<F_%s, %s> M_%s;" % (name, cxx_hist_back(m["hist"]), name))
    # id tables and snapshots
    w("  static void fill_ids() {")
    for path, m in machines:
        name = pname(path)
        ids = []
        for i, st in enumerate(m["states"]):
            ids.append("C::template id<M_%s, %s>()" % (name, id_type(path, i, st)))
        w("    H::idmap()[\"%s\"] = std::vector<int>{%s};" % (pstr(path), ", ".join(ids)))
    w("  }")
    for path, m in sorted(machines, key=lambda pm: -len(pm[0])):
        name = pname(path)
        w("  static void snap_%s(M_%s& f, const char* tag = \"SNAP\") {" % (name, name))
        w("    std::printf(\"%s %s [%s]\\n\", tag, H::lp(f.path()).c_str(), H::obs(f).c_str());")
        if introspect:
            # introspection agreement (comment lines: not part of the compared trace, read by the C03 monitor)
            w("#ifdef H_INTROSPECT")
            w("    if (std::string(tag) == \"SNAP\") {")
            w("#ifdef H_MP11")
            w("      std::printf(\"#ACT %s [\", H::lp(f.path()).c_str());")
            for i, st in enumerate(m["states"]):
                w("      if (f.template is_state_active<%s>()) std::printf(\" %%d\", H::lib_id(\"%s\", %d));" % (id_type(path, i, st), pstr(path), i))
            w("      std::printf(\" ]\\n\");")
            if not path:
                w("      { std::vector<std::string> v; f.visit([&](auto& st) { v.push_back(H::whoami(st)); });")
                w("        std::sort(v.begin(), v.end()); std::printf(\"#VIS\"); for (auto& x : v) std::printf(\" %s\", x.c_str()); std::printf(\"\\n\"); }")
            w("#else")
            w("      std::printf(\"#GSI %s\", H::lp(f.path()).c_str());")
            for i, st in enumerate(m["states"]):
                w("      std::printf(\" %%d\", (int)(f.get_state_by_id(H::lib_id(\"%s\", %d)) == static_cast<const typename M_%s::BaseState*>(&f.template get_state<%s&>())));" % (pstr(path), i, name, id_type(path, i, st)))
            w("      std::printf(\"\\n\");")
            w("#endif")
            w("    }")
            w("#endif")
        w("    for (int a : H::ids(f)) {")
        for i, st in enumerate(m["states"]):
            if st["sub"] is not None:
                sub = pname(path + (i,))
                w("      if (a == H::lib_id(\"%s\", %d)) snap_%s(f.template get_state<M_%s&>(), tag);" % (pstr(path), i, sub, sub))
        w("    }")
        w("  }")
    # opted-in state data of every state of every machine of the tree, active or not (comment lines, read by mon_C16)
    for path, m in sorted(machines, key=lambda pm: -len(pm[0])):
        name = pname(path)
        w("  static void data_%s(M_%s& f, const char* tag) {" % (name, name))
        w("#ifdef H_OBJDATA")
        w("    { const F_%s& fe = f; std::printf(\"#FDATA %%s %s [\", tag); for (int x : fe.h_journal) std::printf(\" %%d\", x); std::printf(\" ] %%s\\n\", fe.h_label.c_str()); }" % (name, pstr(path)))
        w("#endif")
        w("#ifdef H_SERIALIZE")
        w("    std::printf(\"#DATA %%s %s [\", tag);" % pstr(path))
        for i, st in enumerate(m["states"]):
            if st["sub"] is None:
                w("    std::printf(\" %%d\", f.template get_state<%s&>().h_hits);" % id_type(path, i, st))
        w("    std::printf(\" ]\\n\");")
        w("#endif")
        w("#if defined(H_SERIALIZE) || defined(H_OBJDATA)")
        for i, st in enumerate(m["states"]):
            if st["sub"] is not None:
                sub = pname(path + (i,))
                w("    data_%s(f.template get_state<M_%s&>(), tag);" % (sub, sub))
        w("#endif")
        w("  }")
    # circular-buffer message queues need a capacity before use, at every level
    for path, m in sorted(machines, key=lambda pm: -len(pm[0])):
        name = pname(path)
        w("  static void caps_%s(M_%s& f) {" % (name, name))
        w("#ifdef H_CIRC")
        w("    f.get_message_queue().set_capacity(64);")
        w("    if constexpr (C::template has_defq<M_%s>()) f.get_deferred_queue().set_capacity(64);" % name)
        for i, st in enumerate(m["states"]):
            if st["sub"] is not None:
                sub = pname(path + (i,))
                w("    caps_%s(f.template get_state<M_%s&>());" % (sub, sub))
        w("#endif")
        w("  }")
    w("};")
    w("#ifdef H_CFG_back_fct")
    for path, m in machines:
        if path:
            w("typedef Def<CBackFct>::M_%s fct_%s; BOOST_MSM_BACK_GENERATE_PROCESS_EVENT(fct_%s)" % (pname(path), pname(path), pname(path)))
    w("#endif")
    src = "\n".join(L)
    src += "\n#include \"main.hpp\"\n"
    return src

def id_type(path, i, st):
    name = pname(path)
    if st["sub"] is not None:
        return "M_%s" % pname(path + (i,))
    k = st["kind"]
    base = "typename F_%s::S_%s_%d" % (name, name, i)
    if isinstance(k, list) and k[0] == "exitpt":
        return "typename M_%s::template exit_pt<%s>" % (name, base)
    return base

def cxx_trig(r):
    t = r["trig"]
    if t == "any":
        return "KleeneEv"
    if t == "none":
        return "none"
    return "Ev%d" % t[1]

def cxx_act(r):
    return {"none": "none", "call": "H::Act<%d>" % r["id"], "defer": "msm::front::Defer"}[r["act"]]

def cxx_guard(r):
    return "H::Grd<%d>" % r["id"] if r["guard"] else "none"


def kleene_into_exit(md):
    for _, m in walk(md["root"]):
        for r in m["rows"]:
            t = r["tgt"]
            if r["trig"] == "any" and isinstance(t, list) and t[0] == "state" and 0 <= t[1] < len(m["states"]):
                k = m["states"][t[1]]["kind"]
                if isinstance(k, list) and k[0] == "exitpt":
                    return True
    return False

def supported(md, cfgname):
    """is the definition inside what the configuration's library accepts (compiles)"""
    base = cfgname.split(":")[0].split("@")[0].replace("+circ", "")
    for path, m in walk(md["root"]):
        if len(m["rows"]) > 20 or len(m["irows"]) > 20 or any(len(st["sirows"]) > 20 for st in m["states"]):
            return False      # the harness writes tables as mpl::vector (20 rows)
        if base == "back11" and m["irows"]:
            return False      # back11: a machine's own internal_transition_table does not compile (Event& vs const Event)
        if base == "back11" and any((isinstance(st["kind"], list) and st["kind"][0] == "exitpt") or st["kind"] == "entrypt" for st in m["states"]):
            return False      # back11: the const event re-dispatched by an exit / entry point does not compile against chained rows
    if base.startswith("mp11") and kleene_into_exit(md):
        return False          # backmp11: a Kleene row whose target is an exit pseudo state does not compile (std::any -> event)
    has_any = any(r["trig"] == "any" for _, m in walk(md["root"]) for r in all_rows(m))
    has_base = any(p is not None for p in md["parents"])
    if (has_any or has_base) and base in ("back_fct", "mp11_fct", "mp11_fpa", "back11"):
        return False          # Kleene / base-class triggers are not honoured (or do not compile: back11 with conflicts) here
    if base == "back_fct":
        ms = list(walk(md["root"]))
        has_compl = any(r["trig"] == "none" for _, m in ms for r in all_rows(m))
        if has_compl and any(m["irows"] for _, m in ms):
            return False      # back favor_compile_time: completion event + a machine's own internal table does not compile
    return True


def adapt(md, cfgname):
    """a variant of the definition inside what the configuration accepts: the machines' own internal tables are
    dropped where the library cannot compile them (back11 always; back favor_compile_time together with completion)"""
    if supported(md, cfgname):
        return md
    md2 = copy.deepcopy(md)
    base = cfgname.split(":")[0].split("@")[0].replace("+circ", "")
    if base.startswith("mp11") and kleene_into_exit(md2):
        for _, m in walk(md2["root"]):
            for r in m["rows"]:
                t = r["tgt"]
                if r["trig"] == "any" and isinstance(t, list) and t[0] == "state" and 0 <= t[1] < len(m["states"]):
                    k = m["states"][t[1]]["kind"]
                    if isinstance(k, list) and k[0] == "exitpt":
                        r["trig"] = ["ev", EV_FIRST_USER]
        if supported(md2, cfgname):
            return md2
    if base in ("back_fct", "mp11_fct", "mp11_fpa", "back11"):
        # replace Kleene triggers and drop the inheritance between event types
        md2["parents"] = [None] * len(md2["parents"])
        for _, m in walk(md2["root"]):
            for r in all_rows(m):
                if r["trig"] == "any":
                    r["trig"] = ["ev", EV_FIRST_USER]      # keep the row (and the states it mentions), with an ordinary trigger
        if supported(md2, cfgname):
            return md2
    for _, m in walk(md2["root"]):
        m["irows"] = []
    return md2 if supported(md2, cfgname) else None


def adapt_ops(ops, cfgname):
    """operations that only one engine offers are replaced for the others: move construction exists for backmp11 only"""
    if cfgname.split(":")[0].split("@")[0].replace("+circ", "").startswith("mp11"):
        return ops
    return [("copy", o[1], o[2]) if o[0] == "move" else o for o in ops]
