// prelude.hpp - library includes selected by the configuration macro H_CFG_* ; then rt.hpp
#pragma once
#include <boost/mpl/vector.hpp>
#include <boost/msm/front/state_machine_def.hpp>
#include <boost/msm/front/functor_row.hpp>
#include <boost/msm/front/states.hpp>
#include <boost/msm/front/history_policies.hpp>
#include <boost/msm/active_state_switching_policies.hpp>
#if defined(H_CFG_back) || defined(H_CFG_back_fct)
#include <boost/msm/back/state_machine.hpp>
#include <boost/msm/back/favor_compile_time.hpp>
#include <boost/msm/back/queue_container_circular.hpp>
#elif defined(H_CFG_back11)
#include <boost/msm/back/state_machine.hpp>
#include <boost/msm/back11/state_machine.hpp>
#include <boost/msm/back/queue_container_circular.hpp>
#define H_HAS_BACK11 1
#else
#include <boost/msm/back/state_machine.hpp>
#include <boost/msm/backmp11/state_machine.hpp>
#include <boost/msm/backmp11/favor_compile_time.hpp>
#define H_MP11 1
#endif
#ifdef H_SERIALIZE
#define H_HIT (++this->h_hits)
#else
#define H_HIT ((void)0)
#endif
#ifdef H_OBJDATA
#define H_JOURNAL (this->h_journal.push_back((int)this->h_journal.size()))
#else
#define H_JOURNAL ((void)0)
#endif
namespace mpl = boost::mpl;
namespace msm = boost::msm;
using msm::front::Row;
using msm::front::none;
#include "rt.hpp"
