// prelude2.hpp - included after the event types: functors, configuration traits, submission switches
#pragma once
struct EvInit : H::EvB { EvInit() : H::EvB{1, 0} {} };
struct EvExit : H::EvB { EvExit() : H::EvB{2, 0} {} };
template <int N> struct Flag {};
#ifdef H_MP11
typedef std::any KleeneEv;
#else
typedef boost::any KleeneEv;
#endif

namespace H {
template <int ID> struct Act {
  template <class E, class F, class S, class T> void operator()(E const& e, F& f, S&, T&) const { cb("A", F::path(), ID, e, f); }
};
template <int ID> struct Grd {
  template <class E, class F, class S, class T> bool operator()(E const& e, F& f, S&, T&) const { return guard(F::path(), ID, e, f); }
};

template <class F> void submit(F& f, int ty, int pay) {
  switch (ty) {
#define X(N) case N: f.process_event(Ev##N(pay)); break;
    H_EVENTS(X)
#undef X
    default: throw harness_error("submit: unknown event type");
  }
}
template <class F> void enqueue(F& f, int ty, int pay) {
  switch (ty) {
#define X(N) case N: f.enqueue_event(Ev##N(pay)); break;
    H_EVENTS(X)
#undef X
    default: throw harness_error("enqueue: unknown event type");
  }
}
template <class F> int process(F& f, int ty, int pay) {
  switch (ty) {
#define X(N) case N: return (int)f.process_event(Ev##N(pay));
    H_EVENTS(X)
#undef X
    default: throw harness_error("process: unknown event type");
  }
}
// events that reach a behaviour type-erased (Kleene rows; backmp11 favor_compile_time's any_event)
template <class E> EvInfo info_any(E const& e) {
  if constexpr (requires { e.type(); }) {
#ifdef H_MP11
#define X(N) if (e.type() == typeid(Ev##N)) { auto p = std::any_cast<Ev##N>(&e); return EvInfo{p->ty, p->pay, 0}; }
    H_EVENTS(X)
#undef X
    if (e.type() == typeid(EvInit)) return EvInfo{1, 0, 0};
    if (e.type() == typeid(EvExit)) return EvInfo{2, 0, 0};
    if (e.type() == typeid(boost::msm::front::none)) return EvInfo{0, 0, 0};
#else
#define X(N) if (e.type() == typeid(Ev##N)) { auto p = boost::any_cast<Ev##N>(&e); return EvInfo{p->ty, p->pay, 0}; }
    H_EVENTS(X)
#undef X
#endif
    return EvInfo{-1, -1, 0};
  } else {
    return EvInfo{-2, -2, 0};
  }
}
}  // namespace H

// ---- configuration traits: how a machine type is formed, how ids are read, how the queue is drained ----
struct HistNone {}; struct HistAlways {}; template <class... E> struct HistShallow {};
#if defined(H_CFG_back) || defined(H_CFG_back_fct)
template <class H_> struct BackHist;
template <> struct BackHist<HistNone> { typedef msm::back::NoHistory type; };
template <> struct BackHist<HistAlways> { typedef msm::back::AlwaysHistory type; };
template <class... E> struct BackHist<HistShallow<E...>> { typedef msm::back::ShallowHistory<mpl::vector<E...>> type; };
struct CBack {
  template <class F, class SM> static bool flag_or(SM& f) { return f.template is_flag_active<F>(); }
  template <class F, class SM> static bool flag_and(SM& f) { return f.template is_flag_active<F, typename SM::Flag_AND>(); }
  template <class Front, class Hi> using sm = msm::back::state_machine<Front, typename BackHist<Hi>::type>;
  template <class SM, class S> static int id() { return msm::back::get_state_id<typename SM::stt, S>::value; }
  template <class SM> static void drain(SM& f, int max) {
    if (max == 0) f.execute_queued_events(); else if (f.get_message_queue_size() > 0) f.execute_single_queued_event(); }
};
struct CBackCirc : CBack {
  template <class Front, class Hi> using sm = msm::back::state_machine<Front, typename BackHist<Hi>::type, msm::back::queue_container_circular>;
  template <class SM> static constexpr bool has_defq() { return msm::back::has_fsm_deferred_events<SM>::type::value; }
};
struct CBackFct {
  template <class F, class SM> static bool flag_or(SM& f) { return CBack::flag_or<F>(f); }
  template <class F, class SM> static bool flag_and(SM& f) { return CBack::flag_and<F>(f); }
  template <class Front, class Hi> using sm = msm::back::state_machine<Front, typename BackHist<Hi>::type, msm::back::favor_compile_time>;
  template <class SM, class S> static int id() { return msm::back::get_state_id<typename SM::stt, S>::value; }
  template <class SM> static void drain(SM& f, int max) { CBack::drain(f, max); }
};
#elif defined(H_CFG_back11)
template <class H_> struct BackHist;
template <> struct BackHist<HistNone> { typedef msm::back::NoHistory type; };
template <> struct BackHist<HistAlways> { typedef msm::back::AlwaysHistory type; };
template <class... E> struct BackHist<HistShallow<E...>> { typedef msm::back::ShallowHistory<mpl::vector<E...>> type; };
struct CBack11 {
  template <class F, class SM> static bool flag_or(SM& f) { return f.template is_flag_active<F>(); }
  template <class F, class SM> static bool flag_and(SM& f) { return f.template is_flag_active<F, typename SM::Flag_AND>(); }
  template <class Front, class Hi> using sm = msm::back11::state_machine<Front, void, typename BackHist<Hi>::type>;
  template <class SM, class S> static int id() { return msm::back::get_state_id<typename SM::stt, S>::value; }
  template <class SM> static void drain(SM& f, int max) {
    if (max == 0) f.execute_queued_events(); else if (f.get_message_queue_size() > 0) f.execute_single_queued_event(); }
};
struct CBack11Circ : CBack11 {
  template <class Front, class Hi> using sm = msm::back11::state_machine<Front, void, typename BackHist<Hi>::type, msm::back::queue_container_circular>;
  template <class SM> static constexpr bool has_defq() { return msm::back11::has_fsm_deferred_events<SM>::type::value; }
};
#else
template <class Front, class Cfg> struct Mp11Sm : msm::backmp11::state_machine<Front, Cfg, Mp11Sm<Front, Cfg>> {
  using base = msm::backmp11::state_machine<Front, Cfg, Mp11Sm<Front, Cfg>>;
  using base::base;
  size_t pool_size() const { return this->get_event_pool().events.size(); }
};
struct FpaPolicy : msm::backmp11::favor_runtime_speed { using dispatch_strategy = msm::backmp11::dispatch_strategy::function_pointer_array; };
struct CfgFpa : msm::backmp11::default_state_machine_config { using compile_policy = FpaPolicy; };
struct CfgFct : msm::backmp11::default_state_machine_config { using compile_policy = msm::backmp11::favor_compile_time; };
template <class Cfg> struct CMp11T {
  template <class F, class SM> static bool flag_or(SM& f) { return f.template is_flag_active<F>(); }
  template <class F, class SM> static bool flag_and(SM& f) { return f.template is_flag_active<F, msm::backmp11::flag_and>(); }
  template <class Front, class Hi> using sm = Mp11Sm<Front, Cfg>;
  template <class SM, class S> static int id() { return (int)SM::template get_state_id<S>(); }
  template <class SM> static void drain(SM& f, int max) { if (max == 0) f.process_event_pool(); else f.process_event_pool(1); }
};
typedef CMp11T<msm::backmp11::default_state_machine_config> CMp11;
typedef CMp11T<CfgFpa> CMp11Fpa;
typedef CMp11T<CfgFct> CMp11Fct;
#endif
