"""props.py - per property: theorem file (coq/Properties_Cxx.v), machine profile, configurations, operation
generator, monitor over implementation traces, and the projection that decides whether a model/implementation
disagreement concerns this property."""
import monitors as M
import checklib

SIX = ["back", "back_fct", "back11", "mp11", "mp11_fpa", "mp11_fct"]
POL = lambda base: [base + ":p%d" % p for p in range(4)]

CORE_ASSUME = ["behaviours are pure observers in these runs (empty plan): no submissions, no throws",
               "machines are drawn from the generator's well-formed family (regions with disjoint state sets, targets in the source's region)"]

PROPS = {
    "C01": {
        "profile": "core", "n_quick": 5, "n_thorough": 40, "nops": 16, "nlists": 3, "cfgs": SIX,
        "monitor": None,
        "relevant": M.relevant_by(M.proj({"G0", "G1", "A"}, keep_res=True)),
        "rule": "seeded random machines (1-3 regions, depth <= 2, conflicting rows, state and sm internal tables) x 6 "
                "configurations x random guard valuations; distinct = (configuration, machine, active ids, event, guard pattern)",
        "assumptions": CORE_ASSUME,
    },
    "C02": {
        "profile": "core", "n_quick": 5, "n_thorough": 40, "nops": 16, "nlists": 3, "cfgs": SIX,
        "monitor": None,
        "relevant": M.relevant_by(M.proj({"X", "A", "N", "MN", "MX"}, keep_snap=True)),
        "rule": "same machines as C01; every taken transition's exit/action/entry cascade compared item by item",
        "assumptions": CORE_ASSUME,
    },
    "C06": {
        "profile": "core", "n_quick": 5, "n_thorough": 40, "nops": 16, "nlists": 3, "cfgs": SIX,
        "monitor": M.mon_C06,
        "relevant": M.relevant_by(M.proj({"NT"}, keep_res=True)),
        "rule": "same machines as C01; result code and no_transition calls of every process_event",
        "assumptions": CORE_ASSUME,
    },
    "C07": {
        "profile": "nest", "n_quick": 4, "n_thorough": 30, "nops": 16, "nlists": 3, "cfgs": SIX,
        "monitor": None,
        "relevant": M.relevant_by(M.proj(M.ALL, keep_res=True, keep_snap=True)),
        "rule": "nested machines (depth 2-3, 1-2 regions per level); full trace compared",
        "assumptions": CORE_ASSUME,
    },
    "C03": {
        "profile": "all", "n_quick": 4, "n_thorough": 30, "nops": 18, "nlists": 3, "cfgs": SIX,
        "monitor": M.mon_C03,
        "relevant": M.relevant_by(M.proj({"N", "X", "MN", "MX"}, keep_snap=True)),
        "rule": "machines with completion, deferral, history and blocking states; after every operation the reported "
                "active ids at every level are checked against the entry/exit ledger and the regions' state sets",
        "assumptions": ["exception-free behaviours"],
    },
    "C19": {
        "profile": "nest", "n_quick": 3, "n_thorough": 16, "nops": 14, "nlists": 3,
        "cfgs": POL("back") + POL("mp11") + ["back11:p2", "back_fct:p1", "mp11_fct:p3", "mp11_fpa:p2"],
        "monitor": M.mon_C19,
        "relevant": M.relevant_by(M.proj(M.ALL, keep_obs=True)),
        "rule": "seeded random nested machines (profile nest) x 4 policies x engines; every taken external transition "
                "observed from guard/exit/action/entry; distinct = (policy, phase, machine path, row) combinations whose "
                "observation was checked against the documented table",
        "assumptions": ["the four policies are compared on the same machines and operation lists; behaviours do not throw"],
    },
}

def prebuild():
    """compile the harness binaries of every property's quick tier (shared cache) - called from `make setup`"""
    import os, corr, msmgen
    from concurrent.futures import ThreadPoolExecutor
    seed = int(os.environ.get("VERIF_SEED", "1"))
    jobs = {}
    for prop, spec in PROPS.items():
        for name, g, md in checklib.machines_for(spec["profile"], seed, spec["n_quick"]):
            for c in spec["cfgs"]:
                if msmgen.supported(md, c):
                    jobs[(name, c)] = (md, c)
    with ThreadPoolExecutor(14) as ex:
        res = list(ex.map(lambda j: corr.build_binary(j[0], j[1]), jobs.values()))
    bad = [r for r in res if r[0] is None]
    print("prebuilt %d harness binaries (%d failed)" % (len(res) - len(bad), len(bad)))
    return 0
