"""props.py - per property: theorem file (coq/Properties_Cxx.v), machine profile, configurations, operation
generator, monitor over implementation traces, and the projection that decides whether a model/implementation
disagreement concerns this property."""
import monitors as M
import checklib

SIX = ["back", "back_fct", "back11", "mp11", "mp11_fpa", "mp11_fct"]
POL = lambda base: [base + ":p%d" % p for p in range(4)]

CORE_ASSUME = ["behaviours are pure observers in these runs (empty plan): no submissions, no throws",
               "machines are drawn from the generator's well-formed family (regions with disjoint state sets, targets in the source's region)"]

PROPS = {
    "C01": {
        "extra": [("mix", 3, 12)], "profile": "core", "n_quick": 5, "n_thorough": 40, "nops": 16, "nlists": 3, "cfgs": SIX,
        "corpus": ["nested_defer_not_forwarded", "fwd_sub_table", "fwd_sub_table_internal", "fwd_sub_irows", "fwd_sub_sirows", "fwd_subsub_table",
                   "fwd_subsub_irows", "fwd_subsub_sirows", "fwd_nowhere", "ortho_codes", "defer_codes"],
        "monitor": M.both(M.mon_C01, M.mon_spec),
        "relevant": M.relevant_by(M.proj({"G0", "G1", "A"}, keep_res=True)),
        "rule": "seeded random machines (1-3 regions, depth <= 2, conflicting rows, state and sm internal tables) x 6 "
                "configurations x random guard valuations; distinct = (configuration, machine, active ids, event, guard pattern)",
        "assumptions": CORE_ASSUME,
    },
    "C02": {
        "extra": [("mix", 3, 12)], "profile": "core", "n_quick": 5, "n_thorough": 40, "nops": 16, "nlists": 3, "cfgs": SIX,
        "corpus": ["rowkind_row", "rowkind_arow", "rowkind_grow", "rowkind_norow",
                   "rowkind_ep_row", "rowkind_ep_arow", "rowkind_ep_grow", "rowkind_ep_norow"],
        "monitor": M.mon_spec,
        "relevant": M.relevant_by(M.proj({"X", "A", "N", "MN", "MX"}, keep_snap=True)),
        "rule": "same machines as C01; every taken transition's exit/action/entry cascade compared item by item",
        "assumptions": CORE_ASSUME,
    },
    "C06": {
        "extra": [("mix", 3, 12)], "profile": "all", "n_quick": 5, "n_thorough": 40, "nops": 16, "nlists": 3, "cfgs": SIX,
        "corpus": ["ortho_codes", "ortho_terminate", "ortho_interrupt", "exitpt_codes", "defer_codes",
                   "fwd_sub_sirows", "fwd_subsub_table", "fwd_subsub_irows", "fwd_subsub_sirows", "fwd_nowhere"],
        "monitor": M.both(M.mon_C06, M.mon_spec),
        "relevant": M.relevant_by(M.proj(M.ALL, keep_res=True)),
        "rule": "same machines as C01; result code and no_transition calls of every process_event",
        "assumptions": CORE_ASSUME,
    },
    "C07": {
        "extra": [("mix", 3, 12)], "profile": "nest", "n_quick": 4, "n_thorough": 30, "nops": 16, "nlists": 3, "cfgs": SIX,
        "corpus": ["fwd_sub_table", "fwd_sub_table_internal", "fwd_sub_irows", "fwd_sub_sirows", "fwd_subsub_table",
                   "fwd_subsub_irows", "fwd_subsub_sirows", "fwd_nowhere", "defer_codes"],
        "monitor": M.both(M.mon_C01, M.mon_spec),
        "relevant": M.relevant_by(M.proj(M.ALL, keep_res=True, keep_snap=True)),
        "rule": "nested machines (depth 2-3, 1-2 regions per level); full trace compared",
        "assumptions": CORE_ASSUME,
    },
    "C03": {
        "profile": "all", "n_quick": 4, "n_thorough": 30, "nops": 18, "nlists": 3, "cfgs": SIX,
        "corpus": ["fork_auto_region", "fork_partial_none", "fork_partial_always", "explicit_completion",
                   "root_history_restart_always", "root_history_restart_shallow"],
        "monitor": M.mon_C03, "check_ids": True, "extra_flags": ("-DH_INTROSPECT",),
        "relevant": M.relevant_by(M.proj({"N", "X", "MN", "MX"}, keep_snap=True)),
        "rule": "machines with completion, deferral, history and blocking states; after every operation the reported "
                "active ids at every level are checked against the entry/exit ledger and the regions' state sets",
        "assumptions": ["exception-free behaviours"],
    },
    "C04": {
        "extra": [("mix", 3, 12), ("core", 3, 12, "gen_ops_queue_plain"), ("hist", 2, 8, "gen_ops_queue_plain")], "profile": "rtc", "n_quick": 5, "n_thorough": 40, "nops": 16, "nlists": 4, "cfgs": SIX + ["back+circ", "back11+circ"],
        "ops": lambda g, md, n: (g.gen_ops_queue(md, n) if g.rng.random() < 0.5 else g.gen_ops(md, n)),
        "corpus": ["throw_then_submit"],
        "monitor": M.both(M.mon_C04, M.mon_spec),
        "relevant": M.relevant_by(M.proj(M.ALL, keep_res=True, keep_snap=True, keep_ev=True)),
        "rule": "machines whose behaviours submit (process_event / enqueue_event) 0-3 further events at planned behaviour "
                "positions, plus enqueue / drain / single-step operations from outside; payloads identify occurrences; "
                "cases in which the model reports re-entrant processing (known finding F16: submission from a substate's exit "
                "while the enclosing machine leaves the submachine) are discarded and counted",
        "assumptions": ["queue containers of sufficient capacity (std::deque; boost::circular_buffer with capacity 64 in the +circ configurations)", "throws only in the corpus machine throw_then_submit (submission from exception_caught)"],
    },
    "C05": {
        "extra": [("mix", 3, 12)], "profile": "defer", "n_quick": 5, "n_thorough": 40, "nops": 18, "nlists": 3, "cfgs": SIX,
        "corpus": ["defer_codes", "defer_ortho_reject", "interrupt_defer", "terminate_defer", "defer_action_sub", "defer_action_root", "throw_in_pool",
                   "defer_completion_order", "defer_completion_order_chain", "completion_ortho_defer"],
        "monitor": None,
        "relevant": M.relevant_by(M.proj(M.ALL, keep_res=True, keep_snap=True, keep_ev=True)),
        "rule": "machines with deferring states inside the documented envelope (deferred event not handled by the same "
                "state nor in a sibling region); payloads identify occurrences; the pinned replay walks the sequence "
                "counter across its wrap-around",
        "assumptions": ["back/back11: deferral as documented (see quantifier)", "no throws"],
    },
    "C08": {
        "extra": [("mix", 3, 12)], "profile": "hist", "n_quick": 5, "n_thorough": 40, "nops": 18, "nlists": 3, "cfgs": SIX,
        "corpus": ["fork_partial_none", "fork_partial_shallow_other", "fork_partial_shallow_fork", "fork_partial_always"],
        "monitor": M.mon_spec,
        "relevant": M.relevant_by(M.proj({"N", "MN", "X", "MX"}, keep_snap=True)),
        "rule": "nested machines, each submachine with a random history policy (none / always / shallow on 1-2 event "
                "types); histories of enter / move / exit cycles by random events",
        "assumptions": CORE_ASSUME,
    },
    "C10": {
        "extra": [("mix", 3, 12)], "profile": "rtc", "n_quick": 5, "n_thorough": 40, "nops": 16, "nlists": 3, "cfgs": SIX,
        "corpus": ["explicit_completion", "completion_ortho_defer", "defer_completion_order", "defer_completion_order_chain"],
        "monitor": None,
        "relevant": M.relevant_by(M.proj(M.ALL, keep_res=True, keep_snap=True, keep_ev=True)),
        "monitor": M.mon_C04,
        "rule": "machines with completion rows from simple states (guards, conflicts, chains towards later states) whose "
                "behaviours also submit / enqueue events at planned positions, plus queue operations from outside",
        "assumptions": ["guard results of a completion row are fixed during one operation"],
    },
    "C11": {
        "extra": [("mix", 3, 12)], "profile": "block", "n_quick": 5, "n_thorough": 40, "nops": 18, "nlists": 3, "cfgs": SIX,
        "corpus": ["ortho_terminate", "ortho_interrupt", "ortho_terminate_and_interrupt", "interrupt_defer", "terminate_defer"],
        "monitor": None,
        "relevant": M.relevant_by(M.proj(M.ALL, keep_res=True, keep_snap=True)),
        "rule": "machines with terminate and interrupt states (1-2 end-interrupt events) at any level",
        "assumptions": CORE_ASSUME,
    },
    "C12": {
        "profile": "throw", "n_quick": 4, "n_thorough": 30, "nops": 16, "nlists": 3,
        "cfgs": SIX + ["back:p1", "back:p2", "back:p3", "back11:p3", "mp11:p1", "mp11:p2", "mp11:p3", "mp11_fct:p3"],
        "corpus": ["throw_positions", "throw_nested_entry", "throw_then_submit", "throw_in_pool"],
        "monitor": M.mon_C12,
        "relevant": M.relevant_by(M.proj(M.ALL, keep_res=True, keep_snap=True, keep_ev=True)),
        "rule": "plans make the n-th behaviour invocation of an operation throw std::runtime_error (guards, actions, "
                "entries, exits at every level), mixed with submissions; continuation operations follow every fault",
        "assumptions": ["exceptions derive from std::exception; no_exception_thrown is not configured"],
    },
    "C09": {
        "extra": [("mix", 3, 12)], "profile": "pseudo", "n_quick": 5, "n_thorough": 40, "nops": 18, "nlists": 3,
        "cfgs": SIX + ["back:p3", "back:p2", "back_fct:p3", "mp11:p3", "mp11_fct:p1"],
        "corpus": ["exitpt_outside", "exitpt_codes", "exitpt_regions", "fork_auto_region", "explicit_completion", "rowkind_row", "rowkind_arow", "rowkind_grow", "rowkind_norow", "fork_partial_none", "fork_partial_shallow_other", "fork_partial_shallow_fork", "fork_partial_always"],
        "monitor": None,
        "relevant": M.relevant_by(M.proj(M.ALL, keep_res=True, keep_snap=True, keep_ev=True)),
        "rule": "machines whose submachines have explicit-entry states, forks, entry and exit pseudo states (rows generated "
                "for each of them in the enclosing machine), under every history policy; the corpus machine sends the exit "
                "point's event from outside while the exit point is not active",
        "assumptions": CORE_ASSUME + ["back11: machines with exit points are skipped (the library does not compile them)"],
    },
    "C13": {
        "profile": "common", "n_quick": 6, "n_thorough": 50, "nops": 18, "nlists": 3, "cfgs": SIX + ["back+circ", "back11+circ"],
        "monitor": M.mon_spec, "cross_cfg": M.proj_C13, "corpus": ["exitpt_codes", "exitpt_regions", "rowkind_row", "rowkind_grow", "fwd_sub_table"],
        "relevant": M.relevant_by(M.proj(M.ALL, keep_res=True, keep_snap=True, keep_ev=True)),
        "rule": "machines inside the common feature subset (no machine-level internal tables, no Kleene / base-class triggers, "
                "deferral and blocking states only in the root, completion rows from simple states in one region with guards "
                "fixed for the whole run, flags queried with OR, history per submachine); the SAME definition and operation list "
                "run under all six configurations and the implementations' behaviour (behaviour invocations with order and "
                "arguments, active ids after every operation, handled / zero status) is compared pairwise, in addition to the "
                "comparison of each configuration with its own model instance",
        "assumptions": ["common feature subset as listed in the property's quantifier"],
    },
    "C14": {
        "profile": "frontend", "n_quick": 1500, "n_thorough": 40000, "n_machines_quick": 4, "n_machines_thorough": 30,
        "nops": 18, "nlists": 3,
        "cfgs": ["back", "back@basic", "back@row2", "back_fct@basic", "back_fct@row2", "back11@basic", "back11@row2",
                 "mp11", "mp11@basic", "mp11@row2f", "mp11_fct@row2f", "mp11_fpa@basic"],
        "custom": "puml", "machines": True,
        "monitor": None, "relevant": lambda fd, r: True,
        "rule": "PlantUML lines generated from the documented line grammar (identifiers, 1-4 dashes, optional event / "
                "internal '-event' / Kleene '*', 0-3 actions, optional guard expression, either order of the action and guard "
                "parts, blank/tab padding at every gap): exhaustive over the shape space x 3 random fillings, plus seeded random "
                "lines; the library's own parse_row / cleanup_token / parse_action / count_actions / count_transitions are called "
                "at run time and compared (a) with the fields the grammar defines and (b) with the Coq transcription; a separate "
                "malformed stream is compared with the transcription only; distinct = distinct line texts. Guard expressions: "
                "trees of the C++-precedence grammar (||, &&, !, parentheses nested up to depth 3, blank/tab padding) are printed, "
                "put into a transition line and given to create_transition_table at compile time; the And_/Or_/Not_ type the "
                "library builds is printed by a type-to-text template and compared (a) by truth table with the tree that was "
                "printed and (b) exactly with the Coq transcription of find_top_level / parse_guard_simple",
        "assumptions": ["lines shorter than 2^64 characters",
                        "create_transition_table's row assembly, parse_guard_advanced (And(..)/Or(..)/Not(..) syntax), flags, entry/exit lines and the other front-ends (basic rows, eUML) are not modelled"],
    },
    "C15": {
        "profile": "copy", "n_quick": 5, "n_thorough": 40, "nops": 22, "nlists": 3, "cfgs": SIX,
        "ops": lambda g, md, n: g.gen_ops_copy(md, n, mode="move" if g.rng.random() < 0.5 else "copy"),
        "ops_cfg": True, "extra_flags": ("-DH_OBJDATA",),
        "corpus": ["copyhist_none", "copyhist_always", "copyhist_shallow", "assignhist_none", "assignhist_always",
                   "assignhist_shallow", "movehist_always", "movehist_shallow", "copy_pool_counter"],
        "monitor": M.mon_C15,
        "relevant": M.relevant_by(M.proj(M.ALL, keep_res=True, keep_snap=True, keep_ev=True)),
        "rule": "nested machines (history, deferral, completion, exit points); object 0 is driven, copied / assigned (and "
                "for backmp11 moved) into further objects at quiescent points - also with events pending - and all objects are "
                "then driven with different continuations; every object's reported configuration is printed after every "
                "operation; for back / back11 copies made while events are pending are discarded (known finding F10)",
        "assumptions": ["copy from a const reference", "back/back11: copy with empty queues (F10)"],
    },
    "C16": {
        "profile": "copy", "n_quick": 5, "n_thorough": 40, "nops": 20, "nlists": 3, "cfgs": ["back", "back_fct", "back11"],
        "ops": lambda g, md, n: g.gen_ops_copy(md, n, mode="saveload", pending=False),
        "extra_flags": ("-DH_SERIALIZE",),
        "corpus": ["savehist_none", "savehist_always", "savehist_shallow", "save_explicit_entry", "save_exit_point"],
        "monitor": M.mon_C16,
        "relevant": M.relevant_by(M.proj(M.ALL, keep_res=True, keep_snap=True, keep_ev=True)),
        "rule": "same machines as C15 under back / back11: at quiescent points with empty queues the machine is saved to a text "
                "archive and loaded into a freshly constructed object (the binary archive is loaded into a scratch object and "
                "its configuration compared), then original and loaded object are driven with different continuations",
        "assumptions": ["queues are empty at the save point (they are not serialized)"],
    },
    "C17": {
        "profile": "flags", "n_quick": 5, "n_thorough": 40, "nops": 16, "nlists": 3, "cfgs": SIX + ["mp11:p1", "back:p1", "mp11:p2"],
        "corpus": ["flags_leaving_sub"],
        "monitor": M.mon_flags_inside, "extra_flags": ("-DH_FLAGOBS",),
        "relevant": M.relevant_by(M.proj_C17),
        "rule": "machines with user flags on simple states, submachine states and substates; after every operation "
                "is_flag_active<F>() and is_flag_active<F, AND>() of the root are compared for every flag",
        "assumptions": CORE_ASSUME,
    },
    "C18": {
        "profile": "events", "n_quick": 5, "n_thorough": 40, "nops": 16, "nlists": 3, "cfgs": ["back", "mp11", "back_fct", "mp11_fct", "mp11_fpa", "back11"],
        "corpus": ["base_forward_2", "base_forward_3"],
        "monitor": None,
        "relevant": M.relevant_by(M.proj(M.ALL, keep_res=True, keep_snap=True, keep_ev=True)),
        "rule": "machines mixing exact, base-class (one derived event type) and Kleene triggers; every event type of the "
                "hierarchy is sent; the event type and payload seen by every behaviour are compared",
        "assumptions": CORE_ASSUME + ["Kleene / base-class triggers are exercised under back and backmp11 flat_fold; for favor_compile_time, function_pointer_array and back11 (which do not honour or do not compile them) the same machines run with the Kleene triggers replaced and the event hierarchy flattened"],
    },
    "C19": {
        "profile": "nest", "n_quick": 3, "n_thorough": 16, "nops": 14, "nlists": 3,
        "cfgs": POL("back") + POL("back11") + POL("mp11") + ["back_fct:p1", "back_fct:p2", "mp11_fct:p3", "mp11_fct:p1", "mp11_fpa:p2"],
        "corpus": ["flags_leaving_sub", "exitpt_outside", "rowkind_ep_row", "rowkind_ep_arow", "rowkind_ep_grow", "rowkind_ep_norow"],
        "monitor": M.both(M.mon_C19, M.mon_spec, M.mon_flags_inside), "extra_flags": ("-DH_FLAGOBS",),
        "relevant": M.relevant_by(M.proj(M.ALL, keep_obs=True)),
        "rule": "seeded random nested machines (profile nest) x 4 policies x engines; every taken external transition "
                "observed from guard/exit/action/entry; distinct = (policy, phase, machine path, row) combinations whose "
                "observation was checked against the documented table",
        "assumptions": ["the four policies are compared on the same machines and operation lists; behaviours do not throw"],
    },
    "C20": {
        "profile": "rtc", "n_quick": 40, "n_thorough": 1500, "cfgs": ["store"],
        "custom": "store",
        "monitor": None, "relevant": lambda fd, r: True,
        "rule": "basic_polymorphic driven directly, built with -fsanitize=address,undefined: 32 event types (sizes 1-512, "
                "alignments 1-64; trivially copyable, non-trivial, throwing move, self-referential), seeded random histories "
                "of make / copy-construct / copy-assign / move-construct / move-assign / destroy / clear over 6 cells; after "
                "every operation value, storage kind (inline / heap / null) and the live-object count are compared with the "
                "Coq ledger model, and the probe checks byte patterns, alignment, self pointers and an address registry; plus "
                "2 (quick) queue/deferral machines per engine run under the same sanitizers",
        "assumptions": ["histories stay inside the library's own use of the type: no copy from an empty or moved-from-heap "
                        "element (the pool never holds one)", "reads of freed / out-of-bounds / uninitialised memory are only "
                        "detectable at run time: ASan + UBSan on the sampled histories, not a theorem"],
    },
}

def prebuild():
    """compile the harness binaries of every property's quick tier (shared cache) - called from `make setup`"""
    import os, corr, msmgen
    from concurrent.futures import ThreadPoolExecutor
    seed = int(os.environ.get("VERIF_SEED", "1"))
    jobs = {}
    for prop, spec in PROPS.items():
        if spec.get("custom") and not spec.get("machines"):
            continue
        for name, g, md in checklib.machines_for(spec["profile"], seed, spec["n_machines_quick"] if spec.get("custom") else spec["n_quick"]):
            for c in spec["cfgs"]:
                md2 = msmgen.adapt(md, c)
                if md2 is not None:
                    jobs[(name, c, tuple(spec.get("extra_flags", ())))] = (md2, c, tuple(spec.get("extra_flags", ())))
        for nm in spec.get("corpus", []):
            import json as _json
            d = _json.load(open(os.path.join(checklib.VERIF, "corpus", nm + ".json")))
            for c in d.get("cfgs", spec["cfgs"]):
                md2 = msmgen.adapt(d["md"], c)
                if md2 is not None:
                    jobs[(nm, c, tuple(spec.get("extra_flags", ())))] = (md2, c, tuple(spec.get("extra_flags", ())))
    with ThreadPoolExecutor(14) as ex:
        res = list(ex.map(lambda j: corr.build_binary(j[0], j[1], extra_flags=j[2]), jobs.values()))
    bad = [r for r in res if r[0] is None]
    print("prebuilt %d harness binaries (%d failed)" % (len(res) - len(bad), len(bad)))
    return 0
