"""props.py - per property: theorem file (coq/Properties_Cxx.v), machine profile, configurations, operation
generator, monitor over implementation traces, and the projection that decides whether a model/implementation
disagreement concerns this property."""
import monitors as M
import checklib

SIX = ["back", "back_fct", "back11", "mp11", "mp11_fpa", "mp11_fct"]
POL = lambda base: [base + ":p%d" % p for p in range(4)]

PROPS = {
    "C19": {
        "profile": "nest", "n_quick": 3, "n_thorough": 16, "nops": 14, "nlists": 3,
        "cfgs": POL("back") + POL("mp11") + ["back11:p2", "back_fct:p1", "mp11_fct:p3", "mp11_fpa:p2"],
        "monitor": M.mon_C19,
        "relevant": M.relevant_by(M.proj(M.ALL, keep_obs=True)),
        "rule": "seeded random nested machines (profile nest) x 4 policies x engines; every taken external transition "
                "observed from guard/exit/action/entry; distinct = (policy, phase, machine path, row) combinations whose "
                "observation was checked against the documented table",
        "assumptions": ["the four policies are compared on the same machines and operation lists; behaviours do not throw"],
    },
}

def prebuild():
    """compile the harness binaries of every property's quick tier (shared cache) - called from `make setup`"""
    import os, corr, msmgen
    from concurrent.futures import ThreadPoolExecutor
    seed = int(os.environ.get("VERIF_SEED", "1"))
    jobs = {}
    for prop, spec in PROPS.items():
        for name, g, md in checklib.machines_for(spec["profile"], seed, spec["n_quick"]):
            for c in spec["cfgs"]:
                if msmgen.supported(md, c):
                    jobs[(name, c)] = (md, c)
    with ThreadPoolExecutor(14) as ex:
        res = list(ex.map(lambda j: corr.build_binary(j[0], j[1]), jobs.values()))
    bad = [r for r in res if r[0] is None]
    print("prebuilt %d harness binaries (%d failed)" % (len(res) - len(bad), len(bad)))
    return 0
