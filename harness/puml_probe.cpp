// puml_probe.cpp - calls the PlantUML tokenizer functions of /repo at run time on the lines read from stdin
#include <boost/msm/front/puml/puml.hpp>
#include <iostream>
#include <string>
namespace d = boost::msm::front::puml::detail;
static std::string S(std::string_view v) { return std::string(v); }
template <int T> static void stt_row(std::string_view text) {
  auto t = d::parse_stt<T>(text);
  std::cout << "STT" << T << "\037" << S(t.source) << "\037" << S(t.target) << "\037" << S(t.event) << "\037" << S(t.guard) << "\037" << S(t.action) << "\037";
}
// mode "stt": one input line = one whole description, its line ends written as \x1e
static int stt_mode() {
  std::string line;
  while (std::getline(std::cin, line)) {
    for (auto& c : line) if (c == '\x1e') c = '\n';
    std::string_view text(line);
    try {
      stt_row<0>(text); stt_row<1>(text); stt_row<2>(text); stt_row<3>(text); stt_row<4>(text); stt_row<5>(text);
      std::cout << "CI\037" << d::count_inits(text) << "\037CT\037" << d::count_terminates(text) << "\n";
    } catch (std::exception&) { std::cout << "THROW\n"; }
  }
  return 0;
}
int main(int argc, char** argv) {
  if (argc > 1 && std::string(argv[1]) == "stt") return stt_mode();
  std::string line;
  while (std::getline(std::cin, line)) {
    std::string_view s(line);
    try {
    auto t = d::parse_row(s);
    std::string acts = S(t.action);
    std::cout << "ROW\037" << S(t.source) << "\037" << S(t.target) << "\037" << S(t.event) << "\037" << S(t.guard) << "\037" << acts
              << "\037CLEAN\037" << S(d::cleanup_token(s)) << "\037NACT\037" << d::count_actions(acts)
              << "\037A0\037" << S(d::parse_action<0>(acts)) << "\037A1\037" << S(d::parse_action<1>(acts)) << "\037A2\037" << S(d::parse_action<2>(acts))
              << "\037NTR\037" << d::count_transitions(s) << "\n";
    } catch (std::exception&) { std::cout << "THROW\n"; }
  }
  return 0;
}
