// puml_probe.cpp - calls the PlantUML tokenizer functions of /repo at run time on the lines read from stdin
#include <boost/msm/front/puml/puml.hpp>
#include <iostream>
#include <string>
namespace d = boost::msm::front::puml::detail;
static std::string S(std::string_view v) { return std::string(v); }
int main() {
  std::string line;
  while (std::getline(std::cin, line)) {
    std::string_view s(line);
    try {
    auto t = d::parse_row(s);
    std::string acts = S(t.action);
    std::cout << "ROW\037" << S(t.source) << "\037" << S(t.target) << "\037" << S(t.event) << "\037" << S(t.guard) << "\037" << acts
              << "\037CLEAN\037" << S(d::cleanup_token(s)) << "\037NACT\037" << d::count_actions(acts)
              << "\037A0\037" << S(d::parse_action<0>(acts)) << "\037A1\037" << S(d::parse_action<1>(acts)) << "\037A2\037" << S(d::parse_action<2>(acts))
              << "\037NTR\037" << d::count_transitions(s) << "\n";
    } catch (std::exception&) { std::cout << "THROW\n"; }
  }
  return 0;
}
