"""pumlcheck.py - C14 tokenizer part: lines generated from the documented PlantUML line grammar (with the fields the
grammar says they contain) are given to (a) the library's own detail::parse_row / cleanup_token / parse_action /
count_actions / count_transitions, called at run time, and (b) the extracted Coq transcription (coq/Puml.v).
(a) is compared with the grammar's expectation (the property itself) and with (b) (the correspondence)."""
import hashlib, itertools, os, random, subprocess, shutil, tempfile
import corr

HERE = os.path.dirname(os.path.abspath(__file__))

def build_probe():
    d = os.path.join(corr.CACHE, corr.repo_hash())
    os.makedirs(d, exist_ok=True)
    src = open(os.path.join(HERE, "puml_probe.cpp")).read()
    exe = os.path.join(d, "puml_probe_" + hashlib.sha256(src.encode()).hexdigest()[:12])
    if os.path.exists(exe):
        return exe, None
    tmpd = tempfile.mkdtemp(prefix="tmp.", dir=corr.CACHE)
    try:
        r = subprocess.run(["g++", "-std=gnu++20", "-O0", "-w", "-I", os.path.join(corr.REPO, "include"),
                            os.path.join(HERE, "puml_probe.cpp"), "-o", os.path.join(tmpd, "p")], capture_output=True, text=True)
        if r.returncode != 0:
            return None, r.stderr[-3000:]
        os.replace(os.path.join(tmpd, "p"), exe)
        return exe, None
    finally:
        shutil.rmtree(tmpd, ignore_errors=True)

IDCH = "abcdefghijklmnopqrstuvwxyzABCDEFGHIJKLMNOPQRSTUVWXYZ0123456789_"

def ident(rng, maxlen=10):
    n = rng.randint(1, maxlen)
    return rng.choice(IDCH[:52] + "_") + "".join(rng.choice(IDCH) for _ in range(n - 1))

def pad(rng, lo=0, hi=4):
    return "".join(rng.choice(" \t") for _ in range(rng.randint(lo, hi)))

def guard_expr(rng):
    atoms = [ident(rng, 6) for _ in range(rng.randint(1, 3))]
    out = ("!" if rng.random() < 0.2 else "") + atoms[0]
    for a in atoms[1:]:
        out += rng.choice([" && ", "&&", " || ", "||"]) + ("!" if rng.random() < 0.2 else "") + a
    if rng.random() < 0.2:
        out = "(" + out + ")"
    return out

def gen_line(rng, shape=None):
    """returns (text, expected fields dict); shape = (dashes, has_event, internal, nactions, has_guard, guard_first)"""
    if shape is None:
        shape = (rng.randint(1, 4), rng.random() < 0.85, rng.random() < 0.15, rng.randint(0, 3), rng.random() < 0.5, rng.random() < 0.3)
    dashes, has_event, internal, nact, has_guard, guard_first = shape
    src, tgt = ident(rng), ident(rng)
    if internal:
        tgt = src
    text = pad(rng) + src + pad(rng) + "-" * dashes + ">" + pad(rng) + tgt + pad(rng)
    exp = {"source": src, "target": tgt, "event": "", "guard": "", "action": "", "actions": []}
    if has_event:
        ev = "*" if rng.random() < 0.1 else ident(rng)
        text += ":" + pad(rng) + ("-" if internal else "") + ev + pad(rng)
        exp["event"] = ev
        if internal:
            exp["target"] = ""
        acts = [ident(rng) for _ in range(nact)]
        act_text = ""
        if acts:
            act_text = "/" + pad(rng) + (pad(rng) + "," + pad(rng)).join(acts) + pad(rng)
            # the action field is the trimmed text between '/' and the next part
            exp["actions"] = acts
        g = guard_expr(rng) if has_guard else ""
        g_text = ("[" + pad(rng, 0, 2) + g + pad(rng, 0, 2) + "]" + pad(rng)) if has_guard else ""
        exp["guard"] = g
        if guard_first:
            text += g_text + act_text
        else:
            text += act_text + g_text
    return text, exp

def exhaustive_shapes():
    for dashes in (1, 2, 3, 4):
        for has_event in (False, True):
            for internal in ((False, True) if has_event else (False,)):
                for nact in ((0, 1, 2, 3) if has_event else (0,)):
                    for has_guard in ((False, True) if has_event else (False,)):
                        for guard_first in ((False, True) if (has_guard and nact) else (False,)):
                            yield (dashes, has_event, internal, nact, has_guard, guard_first)

def parse_out(line):
    t = line.split("\x1f")
    # ROW|src|tgt|ev|guard|action|CLEAN|x|NACT|n|A0|a|A1|b|A2|c|NTR|n
    try:
        return {"source": t[1], "target": t[2], "event": t[3], "guard": t[4], "action": t[5], "clean": t[7],
                "nact": int(t[9]), "a": [t[11], t[13], t[15]], "ntr": int(t[17])}
    except Exception:
        return None

def run(seed, n_random, stats):
    """returns (mismatches model-vs-impl, violations impl-vs-grammar)"""
    exe, err = build_probe()
    if exe is None:
        return [{"machine": "puml_probe", "cfg": "puml", "kind": "build", "detail": err, "md": None, "ops": []}], []
    rng = random.Random("puml/%d" % seed)
    cases = []
    for shape in exhaustive_shapes():
        for _ in range(3):
            cases.append(gen_line(rng, shape) + (shape,))
    for _ in range(n_random):
        cases.append(gen_line(rng) + (None,))
    # a separate malformed stream: only compared between implementation and model
    junk = []
    alphabet = "ab_ \t-->:/[],*!&|()x"
    for _ in range(n_random // 2):
        junk.append("".join(rng.choice(alphabet) for _ in range(rng.randint(0, 30))))
    lines = [c[0] for c in cases] + junk
    inp = "\n".join(lines) + "\n"
    impl = subprocess.run([exe], input=inp, capture_output=True, text=True, timeout=120).stdout.split("\n")
    model = subprocess.run([corr.MODEL, "puml"], input=inp, capture_output=True, text=True, timeout=300).stdout.split("\n")
    mismatches, violations = [], []
    stats.programs += 1
    for i, line in enumerate(lines):
        a = impl[i] if i < len(impl) else None
        b = model[i] if i < len(model) else None
        stats.evaluations += 1
        if a == "THROW":
            stats.discarded["library throws std::out_of_range (malformed line; a compile error in constexpr use)"] += 1
            continue
        if a != b:
            mismatches.append({"machine": "puml line", "cfg": "puml", "kind": "trace",
                               "detail": {"line": line, "impl": a, "model": b}, "md": None, "ops": [line]})
        if i < len(cases):
            text, exp, shape = cases[i]
            got = parse_out(a) if a else None
            stats.traces += 1
            stats.dist[("shape", shape if shape else "random")] += 1
            stats.nontrivial.add(("line", text))
            ok = got is not None and got["source"] == exp["source"] and got["target"] == exp["target"] and \
                got["event"] == exp["event"] and got["guard"] == exp["guard"] and \
                got["nact"] == len(exp["actions"]) and got["a"][:len(exp["actions"])] == exp["actions"] and got["ntr"] == 1
            if not ok:
                violations.append({"machine": "puml line", "cfg": "puml", "md": None, "ops": [text],
                                   "why": "parse_row splits %r into %r, the documented grammar says %r" % (text, got, exp)})
            if len(stats.samples) < 4:
                stats.samples.append({"line": text, "expected": exp, "library": a})
    return mismatches, violations
