"""pumlcheck.py - C14 tokenizer part: lines generated from the documented PlantUML line grammar (with the fields the
grammar says they contain) are given to (a) the library's own detail::parse_row / cleanup_token / parse_action /
count_actions / count_transitions, called at run time, and (b) the extracted Coq transcription (coq/Puml.v).
(a) is compared with the grammar's expectation (the property itself) and with (b) (the correspondence)."""
import hashlib, itertools, os, random, subprocess, shutil, tempfile
import corr

HERE = os.path.dirname(os.path.abspath(__file__))

def build_probe():
    d = os.path.join(corr.CACHE, corr.repo_hash())
    os.makedirs(d, exist_ok=True)
    src = open(os.path.join(HERE, "puml_probe.cpp")).read()
    exe = os.path.join(d, "puml_probe_" + hashlib.sha256(src.encode()).hexdigest()[:12])
    if os.path.exists(exe):
        return exe, None
    tmpd = tempfile.mkdtemp(prefix="tmp.", dir=corr.CACHE)
    try:
        r = subprocess.run(["g++", "-std=gnu++20", "-O0", "-w", "-I", os.path.join(corr.REPO, "include"),
                            os.path.join(HERE, "puml_probe.cpp"), "-o", os.path.join(tmpd, "p")], capture_output=True, text=True)
        if r.returncode != 0:
            return None, r.stderr[-3000:]
        os.replace(os.path.join(tmpd, "p"), exe)
        return exe, None
    finally:
        shutil.rmtree(tmpd, ignore_errors=True)

IDCH = "abcdefghijklmnopqrstuvwxyzABCDEFGHIJKLMNOPQRSTUVWXYZ0123456789_"

def ident(rng, maxlen=10):
    n = rng.randint(1, maxlen)
    return rng.choice(IDCH[:52] + "_") + "".join(rng.choice(IDCH) for _ in range(n - 1))

def pad(rng, lo=0, hi=4):
    return "".join(rng.choice(" \t") for _ in range(rng.randint(lo, hi)))

def guard_expr(rng):
    atoms = [ident(rng, 6) for _ in range(rng.randint(1, 3))]
    out = ("!" if rng.random() < 0.2 else "") + atoms[0]
    for a in atoms[1:]:
        out += rng.choice([" && ", "&&", " || ", "||"]) + ("!" if rng.random() < 0.2 else "") + a
    if rng.random() < 0.2:
        out = "(" + out + ")"
    return out

def gen_line(rng, shape=None):
    """returns (text, expected fields dict); shape = (dashes, has_event, internal, nactions, has_guard, guard_first)"""
    if shape is None:
        shape = (rng.randint(1, 4), rng.random() < 0.85, rng.random() < 0.15, rng.randint(0, 3), rng.random() < 0.5, rng.random() < 0.3)
    dashes, has_event, internal, nact, has_guard, guard_first = shape
    src, tgt = ident(rng), ident(rng)
    if internal:
        tgt = src
    text = pad(rng) + src + pad(rng) + "-" * dashes + ">" + pad(rng) + tgt + pad(rng)
    exp = {"source": src, "target": tgt, "event": "", "guard": "", "action": "", "actions": []}
    if has_event:
        ev = "*" if rng.random() < 0.1 else ident(rng)
        text += ":" + pad(rng) + ("-" if internal else "") + ev + pad(rng)
        exp["event"] = ev
        if internal:
            exp["target"] = ""
        acts = [ident(rng) for _ in range(nact)]
        act_text = ""
        if acts:
            act_text = "/" + pad(rng) + (pad(rng) + "," + pad(rng)).join(acts) + pad(rng)
            # the action field is the trimmed text between '/' and the next part
            exp["actions"] = acts
        g = guard_expr(rng) if has_guard else ""
        g_text = ("[" + pad(rng, 0, 2) + g + pad(rng, 0, 2) + "]" + pad(rng)) if has_guard else ""
        exp["guard"] = g
        if guard_first:
            text += g_text + act_text
        else:
            text += act_text + g_text
    return text, exp

def exhaustive_shapes():
    for dashes in (1, 2, 3, 4):
        for has_event in (False, True):
            for internal in ((False, True) if has_event else (False,)):
                for nact in ((0, 1, 2, 3) if has_event else (0,)):
                    for has_guard in ((False, True) if has_event else (False,)):
                        for guard_first in ((False, True) if (has_guard and nact) else (False,)):
                            yield (dashes, has_event, internal, nact, has_guard, guard_first)

def parse_out(line):
    t = line.split("\x1f")
    # ROW|src|tgt|ev|guard|action|CLEAN|x|NACT|n|A0|a|A1|b|A2|c|NTR|n
    try:
        return {"source": t[1], "target": t[2], "event": t[3], "guard": t[4], "action": t[5], "clean": t[7],
                "nact": int(t[9]), "a": [t[11], t[13], t[15]], "ntr": int(t[17])}
    except Exception:
        return None

def run(seed, n_random, stats):
    """returns (mismatches model-vs-impl, violations impl-vs-grammar)"""
    exe, err = build_probe()
    if exe is None:
        return [{"machine": "puml_probe", "cfg": "puml", "kind": "build", "detail": err, "md": None, "ops": []}], []
    rng = random.Random("puml/%d" % seed)
    cases = []
    for shape in exhaustive_shapes():
        for _ in range(3):
            cases.append(gen_line(rng, shape) + (shape,))
    for _ in range(n_random):
        cases.append(gen_line(rng) + (None,))
    # a separate malformed stream: only compared between implementation and model
    junk = []
    alphabet = "ab_ \t-->:/[],*!&|()x"
    for _ in range(n_random // 2):
        junk.append("".join(rng.choice(alphabet) for _ in range(rng.randint(0, 30))))
    lines = [c[0] for c in cases] + junk
    inp = "\n".join(lines) + "\n"
    impl = subprocess.run([exe], input=inp, capture_output=True, text=True, timeout=120).stdout.split("\n")
    model = subprocess.run([corr.MODEL, "puml"], input=inp, capture_output=True, text=True, timeout=300).stdout.split("\n")
    mismatches, violations = [], []
    stats.programs += 1
    for i, line in enumerate(lines):
        a = impl[i] if i < len(impl) else None
        b = model[i] if i < len(model) else None
        stats.evaluations += 1
        if a == "THROW":
            stats.discarded["library throws std::out_of_range (malformed line; a compile error in constexpr use)"] += 1
            continue
        if a != b:
            mismatches.append({"machine": "puml line", "cfg": "puml", "kind": "trace",
                               "detail": {"line": line, "impl": a, "model": b}, "md": None, "ops": [line]})
        if i < len(cases):
            text, exp, shape = cases[i]
            got = parse_out(a) if a else None
            stats.traces += 1
            stats.dist[("shape", shape if shape else "random")] += 1
            stats.nontrivial.add(("line", text))
            ok = got is not None and got["source"] == exp["source"] and got["target"] == exp["target"] and \
                got["event"] == exp["event"] and got["guard"] == exp["guard"] and \
                got["nact"] == len(exp["actions"]) and got["a"][:len(exp["actions"])] == exp["actions"] and got["ntr"] == 1
            if not ok:
                violations.append({"machine": "puml line", "cfg": "puml", "md": None, "ops": [text],
                                   "why": "parse_row splits %r into %r, the documented grammar says %r" % (text, got, exp)})
            if len(stats.samples) < 4:
                stats.samples.append({"line": text, "expected": exp, "library": a})
    mm4, vv4 = run_stt(exe, seed, 150 if n_random <= 2000 else 1500, stats)
    mismatches += mm4
    violations += vv4
    mm2, vv2 = run_guards(seed, 49 if n_random <= 2000 else 409, stats)
    import fecheck
    mm3, vv3 = fecheck.run(seed, 20 if n_random <= 2000 else 240, stats)
    return mismatches + mm2 + mm3, violations + vv2 + vv3

# ---------------------------------------------------------------------------------------------------
# whole descriptions: parse_stt<t> selects the t-th transition line (a line with "->" and without "[*]")
def gen_description(rng):
    """returns (text, expected rows): transition lines of the grammar mixed with initial / terminate lines, entry /
    exit / flag lines, region separators, frame lines and empty lines; with or without a final line end"""
    lines, rows, kinds = [], [], []
    for _ in range(rng.randint(1, 9)):
        k = rng.random()
        if k < 0.5:
            text, exp = gen_line(rng)
            lines.append(text)
            rows.append(exp)
            kinds.append("row")
            continue
        elif k < 0.62:
            lines.append(pad(rng) + "[*]" + pad(rng, 1, 3) + "-" * rng.randint(1, 4) + ">" + pad(rng, 1, 3) + ident(rng))
            kinds.append("init")
            continue
        elif k < 0.74:
            lines.append(pad(rng) + ident(rng) + pad(rng, 1, 3) + "-" * rng.randint(1, 4) + ">" + pad(rng, 1, 3) + "[*]" + pad(rng))
            kinds.append("term")
            continue
        elif k < 0.84:
            lines.append(ident(rng) + " : " + rng.choice(["entry", "exit", "flag"]) + " " + ident(rng))
        elif k < 0.9:
            lines.append(rng.choice(["--", "@startuml x", "state x{", "}", "@enduml"]))
        else:
            lines.append(pad(rng))
        kinds.append("other")
    final_nl = rng.random() < 0.6
    text = "\n".join(lines) + ("\n" if final_nl else "")
    # what count_inits / count_terminates must answer; None where the library's own contract ends: an initial line
    # that is the last line without a line end (substr(npos) throws: a compile error in constexpr use) and a terminate
    # line that is the very first line of the text (descriptions start with @startuml)
    counts = (None if (kinds[-1] == "init" and not final_nl) else kinds.count("init"),
              None if kinds[0] == "term" else kinds.count("term"))
    return text, rows, counts

def run_stt(exe, seed, n, stats):
    rng = random.Random("stt/%d" % seed)
    cases = [gen_description(rng) for _ in range(n)]
    inp = "\n".join(c[0].replace("\n", "\x1e") for c in cases) + "\n"
    impl = subprocess.run([exe, "stt"], input=inp, capture_output=True, text=True, timeout=120).stdout.split("\n")
    model = subprocess.run([corr.MODEL, "stt"], input=inp, capture_output=True, text=True, timeout=300).stdout.split("\n")
    mismatches, violations = [], []
    for i, (text, rows, counts) in enumerate(cases):
        a = impl[i] if i < len(impl) else None
        b = model[i] if i < len(model) else None
        if a is not None and a.endswith("THROW"):      # the exception may come after the first fields were printed
            a = "THROW"
        stats.evaluations += 1
        stats.traces += 1
        stats.dist[("description: transition lines", min(len(rows), 6))] += 1
        if a != b and not (a == "THROW"):
            mismatches.append({"machine": "puml description", "cfg": "puml", "kind": "trace",
                               "detail": {"text": text, "impl": a, "model": b}, "md": None, "ops": [text]})
        if a == "THROW" and counts[0] is None:
            stats.discarded["description ends in an initial line without line end (library throws: compile error in constexpr use)"] += 1
            continue
        if a is None or a == "THROW":
            violations.append({"machine": "puml description", "cfg": "puml", "md": None, "ops": [text],
                               "why": "parse_stt / count_inits / count_terminates throw on a description of the documented grammar"})
            continue
        f = a.split("\x1f")
        if len(f) >= 40 and f[36] == "CI":
            for nm, got_n, want in (("count_inits", f[37], counts[0]), ("count_terminates", f[39], counts[1])):
                if want is not None and got_n != str(want):
                    violations.append({"machine": "puml description", "cfg": "puml", "md": None, "ops": [text],
                                       "why": "%s of %r is %s, the description has %d such lines" % (nm, text, got_n, want)})
        for t in range(6):
            got = f[6 * t + 1: 6 * t + 6]
            if t < len(rows):
                e = rows[t]
                # the action field is the trimmed text behind '/', compared through its first action here
                ok = len(got) == 5 and got[0] == e["source"] and got[1] == e["target"] and got[2] == e["event"] and got[3] == e["guard"] \
                    and [x.strip(" \t-") for x in got[4].split(",")] == (e["actions"] or [""])
                if ok:
                    stats.nontrivial.add(("stt", text, t))
                why = "parse_stt<%d> of %r returns %r, the %d-th transition line is %r" % (t, text, got, t, e)
            else:
                ok = got == ["", "", "", "", ""]
                why = "parse_stt<%d> of %r returns %r although the description has only %d transition lines" % (t, text, got, len(rows))
            if not ok:
                violations.append({"machine": "puml description", "cfg": "puml", "md": None, "ops": [text], "why": why})
                break
    return mismatches, violations

# ---------------------------------------------------------------------------------------------------
# guard expressions: the grammar of C++ precedence (or-chains of and-chains of unary expressions), any nesting
GNAMES = ["a", "b", "c", "d", "e", "f", "g1", "Guard_2", "x9"]

def gen_gexp(rng, depth, level=2):
    """returns a tree: ("name", n) | ("not", pad, e) | ("paren", p1, e, p2) | ("and", a, p1, p2, b) | ("or", a, p1, p2, b);
    level: 2 = or-chain allowed, 1 = and-chain, 0 = unary"""
    bl = lambda: "".join(rng.choice(" \t") if rng.random() < 0.2 else " " for _ in range(rng.choice([0, 0, 1, 1, 2, 3])))
    r = rng.random()
    if level == 2 and r < 0.3:
        return ("or", gen_gexp(rng, depth, 1), bl(), bl(), gen_gexp(rng, depth, 2))
    if level >= 1 and r < 0.6:
        return ("and", gen_gexp(rng, depth, 0), bl(), bl(), gen_gexp(rng, depth, 1))
    r = rng.random()
    if r < 0.2:
        return ("not", bl() if rng.random() < 0.3 else "", gen_gexp(rng, depth, 0))
    if r < 0.45 and depth > 0:
        return ("paren", bl(), gen_gexp(rng, depth - 1, 2), bl())
    return ("name", rng.choice(GNAMES))

def gprint(e):
    k = e[0]
    if k == "name": return e[1]
    if k == "not": return "!" + e[1] + gprint(e[2])
    if k == "paren": return "(" + e[1] + gprint(e[2]) + e[3] + ")"
    op = "&&" if k == "and" else "||"
    return gprint(e[1]) + e[2] + op + e[3] + gprint(e[4])

def gerase(e):
    k = e[0]
    if k == "name": return e[1]
    if k == "not": return "(not %s)" % gerase(e[2])
    if k == "paren": return gerase(e[2])
    return "(%s %s %s)" % (k, gerase(e[1]), gerase(e[4]))

def gdepth(e):
    k = e[0]
    if k == "name": return 0
    if k == "not": return gdepth(e[2])
    if k == "paren": return 1 + gdepth(e[2])
    return max(gdepth(e[1]), gdepth(e[4]))

GUARD_PROBE = r'''
#include <boost/msm/front/puml/puml.hpp>
#include <boost/fusion/include/at_c.hpp>
#include <cstdio>
#include <string>
using namespace boost::msm::front; using namespace boost::msm::front::puml;
template<class T> struct Show { static std::string s(){ return "?"; } };
template<class A,class B> struct Show<And_<A,B>> { static std::string s(){ return "(and " + Show<A>::s() + " " + Show<B>::s() + ")"; } };
template<class A,class B> struct Show<Or_<A,B>> { static std::string s(){ return "(or " + Show<A>::s() + " " + Show<B>::s() + ")"; } };
template<class A> struct Show<Not_<A>> { static std::string s(){ return "(not " + Show<A>::s() + ")"; } };
template<> struct Show<none> { static std::string s(){ return "none"; } };
#define NAME(n) template<> struct Show<Guard<by_name(#n)>> { static std::string s(){ return #n; } };
NAMES
template<class S,class E,class T,class A,class G> struct Show<Row<S,E,T,A,G>> { static std::string s(){ return Show<G>::s(); } };
#define CASE(str) { auto t = create_transition_table([](){ return str; }); \
  typedef std::remove_cvref_t<decltype(boost::fusion::at_c<0>(t))> R; std::printf("%s\n", Show<R>::s().c_str()); }
int main(){
CASES
}
'''

def cstr(s):
    return '"' + s.replace("\\", "\\\\").replace('"', '\\"').replace("\t", "\\t") + '"'

def build_guard_probe(lines):
    src = GUARD_PROBE.replace("NAMES", " ".join("NAME(%s)" % n for n in GNAMES)).replace("CASES", "\n".join("CASE(%s)" % cstr(l) for l in lines))
    d = os.path.join(corr.CACHE, corr.repo_hash())
    os.makedirs(d, exist_ok=True)
    exe = os.path.join(d, "guard_probe_" + hashlib.sha256(src.encode()).hexdigest()[:12])
    if os.path.exists(exe):
        return exe, None
    tmpd = tempfile.mkdtemp(prefix="tmp.", dir=corr.CACHE)
    try:
        open(os.path.join(tmpd, "g.cpp"), "w").write(src)
        r = subprocess.run(["g++", "-std=gnu++20", "-O0", "-w", "-I", os.path.join(corr.REPO, "include"),
                            os.path.join(tmpd, "g.cpp"), "-o", os.path.join(tmpd, "g")], capture_output=True, text=True)
        if r.returncode != 0:
            return None, r.stderr[-3000:]
        os.replace(os.path.join(tmpd, "g"), exe)
        return exe, None
    finally:
        shutil.rmtree(tmpd, ignore_errors=True)

def sx_parse(text):
    toks = text.replace("(", " ( ").replace(")", " ) ").split()
    def rd(i):
        if toks[i] == "(":
            op = toks[i + 1]
            args, i = [], i + 2
            while toks[i] != ")":
                a, i = rd(i)
                args.append(a)
            return (op, args), i + 1
        return toks[i], i + 1
    t, i = rd(0)
    if i != len(toks):
        raise ValueError(text)
    return t

def sx_eval(t, v):
    if isinstance(t, str):
        return v[t]
    op, args = t
    if op == "not": return not sx_eval(args[0], v)
    if op == "and": return sx_eval(args[0], v) and sx_eval(args[1], v)
    if op == "or": return sx_eval(args[0], v) or sx_eval(args[1], v)
    raise ValueError(op)

def sx_names(t, acc):
    if isinstance(t, str):
        acc.add(t)
    else:
        for a in t[1]:
            sx_names(a, acc)
    return acc

def same_meaning(a, b):
    """both trees denote the same boolean function of the named guards (evaluation order is left to right in both)"""
    if a is None or b is None or "?" in a or a == "NONE":
        return False
    try:
        ta, tb = sx_parse(a), sx_parse(b)
    except Exception:
        return False
    names = sorted(sx_names(ta, set()) | sx_names(tb, set()))
    if len(names) > 12:
        return a == b
    for bits in itertools.product([False, True], repeat=len(names)):
        v = dict(zip(names, bits))
        if sx_eval(ta, v) != sx_eval(tb, v):
            return False
    return True

def run_guards(seed, n, stats):
    """guard expressions of the grammar -> (mismatches model-vs-impl, violations impl-vs-C++-precedence)"""
    rng = random.Random("guards/%d" % seed)
    cases = []
    fixed = ["a && b || (c && d)", "(a || b) && (c || d)", "a || b && c", "!(a && b) || c && !d", "((a || b) && c) || d",
             "a && (b || c) && d", "!a", "a", "!!a", "( a )", "!( a||b )&&!  ( c )"]
    for g in fixed:
        cases.append((g, None))
    while len(cases) < len(fixed) + n:
        e = gen_gexp(rng, rng.choice([0, 1, 1, 2, 3]))
        cases.append((gprint(e), e))
    lines, exps = [], []
    for i, (g, e) in enumerate(cases):
        shape = rng.choice([0, 1, 2])
        line = "S1 -> S2 : ev " + ("/ act " if shape == 1 else "") + "[" + pad(rng, 0, 2) + g + pad(rng, 0, 2) + "]" + (" / act" if shape == 2 else "")
        lines.append(line)
        exps.append(gerase(e) if e is not None else None)
    # the fixed strings: expected trees written by hand (C++ precedence)
    hand = ["(or (and a b) (and c d))", "(and (or a b) (or c d))", "(or a (and b c))", "(or (not (and a b)) (and c (not d)))",
            "(or (and (or a b) c) d)", "(and a (and (or b c) d))", "(not a)", "a", "(not (not a))", "a", "(and (not (or a b)) (not c))"]
    for i, h in enumerate(hand):
        exps[i] = h
    mismatches, violations = [], []
    for lo in range(0, len(lines), 60):
        chunk = lines[lo:lo + 60]
        exe, err = build_guard_probe(chunk)
        if exe is None:
            mismatches.append({"machine": "guard_probe", "cfg": "puml", "kind": "build", "detail": err, "md": None, "ops": chunk[:3]})
            continue
        stats.programs += 1
        impl = subprocess.run([exe], capture_output=True, text=True, timeout=120).stdout.split("\n")
        model = subprocess.run([corr.MODEL, "guard"], input="\n".join(chunk) + "\n", capture_output=True, text=True, timeout=120).stdout.split("\n")
        for k, line in enumerate(chunk):
            a = impl[k] if k < len(impl) else None
            b = model[k] if k < len(model) else None
            exp = exps[lo + k]
            stats.traces += 1
            stats.evaluations += 1
            e = cases[lo + k][1]
            stats.dist[("guard parenthesis depth", gdepth(e) if e else "hand-written")] += 1
            stats.nontrivial.add(("guard", line))
            if a != b:
                mismatches.append({"machine": "puml guard", "cfg": "puml", "kind": "trace",
                                   "detail": {"line": line, "impl": a, "model": b}, "md": None, "ops": [line]})
            if not same_meaning(a, exp):
                violations.append({"machine": "puml guard", "cfg": "puml", "md": None, "ops": [line],
                                   "why": "the guard of %r is built as %s, C++ precedence gives %s" % (line, a, exp)})
    return mismatches, violations
