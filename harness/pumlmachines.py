#!/usr/bin/env python3
"""pumlmachines.py - whole machines written as PlantUML text (C14): flat machines with 1-2 regions, transition lines,
internal '-event' lines, '-> [*]' terminate lines, flag / entry / exit lines (with guards), names chosen so that one
state name is a suffix of another and action names contain the keywords.  The text is compiled by the library
(BOOST_MSM_PUML_DECLARE_TABLE, back::state_machine), driven by event scripts under guard valuations, and its trace of
action / guard invocations, no_transition calls, result codes and flag answers is compared with a reference
interpreter of the description the text was printed from (this file, `reference`): every line may affect only the state
it names."""
import os, random, subprocess, sys, hashlib, shutil, tempfile, json
sys.path.insert(0, os.path.dirname(os.path.abspath(__file__)))
import corr

VERIF = os.path.dirname(os.path.dirname(os.path.abspath(__file__)))
STATE_POOLS = [["Open", "ReOpen", "Closed", "Enclosed"], ["Idle", "NotIdle", "Busy"], ["Run", "PreRun", "Rerun"],
               ["A", "AA", "B", "AB"], ["Wait", "Await", "Done", "Undone"]]
ACTIONS = ["act1", "act2", "log_exit", "on_entry_done", "set_flag", "exit_now", "reentry", "flagged"]
GUARDS = ["g1", "g2", "g3", "g4"]
EVENTS = ["e1", "e2", "e3"]
FLAGS = ["F1", "F2"]

def gen_machine(rng, hard=True):
    """hard: use the shapes the documented grammar allows but that need exact line selection (suffix names, keyword
    substrings, terminate line before a later region, entry lines on initial states, internal lines next to terminate)"""
    nreg = rng.choice([1, 1, 2])
    pools = rng.sample(STATE_POOLS, nreg)
    regions = []
    for p in pools:
        n = rng.randint(2, 3)
        regions.append(rng.sample(p, n))
    rows, term = [], set()
    for reg in regions:
        if rng.random() < 0.5 and len(reg) >= 2:
            term.add(reg[-1])
        for s in reg[1:]:
            src = rng.choice([x for x in reg if x != s and x not in term])
            rows.append(mk_row(rng, src, s))
        for _ in range(rng.randint(0, 3)):
            src = rng.choice([x for x in reg if x not in term])
            if rng.random() < 0.3:
                rows.append(mk_row(rng, src, None))
            else:
                rows.append(mk_row(rng, src, rng.choice(reg)))
    states = [s for reg in regions for s in reg]
    entries, exits, flags = {}, {}, {}
    for s in states:
        if rng.random() < 0.6:
            entries[s] = [(rng.choice(ACTIONS), rng.choice(GUARDS) if rng.random() < 0.5 else None) for _ in range(rng.randint(1, 2))]
        if rng.random() < 0.4:
            exits[s] = [(rng.choice(ACTIONS), rng.choice(GUARDS) if rng.random() < 0.5 else None) for _ in range(rng.randint(1, 2))]
        if rng.random() < 0.3:
            flags[s] = [rng.choice(FLAGS)]
    # every machine has a state whose first entry (exit) line is guarded and whose second is not: the lines of one state
    # are independent of each other
    s1, s2 = rng.choice(states), rng.choice(states)
    entries[s1] = [(rng.choice(ACTIONS), rng.choice(GUARDS)), (rng.choice(ACTIONS), None)]
    exits[s2] = [(rng.choice(ACTIONS), rng.choice(GUARDS)), (rng.choice(ACTIONS), None)]
    return {"regions": regions, "rows": rows, "term": sorted(term), "entries": entries, "exits": exits, "flags": flags,
            "seed": rng.random()}

def mk_row(rng, src, tgt):
    return {"src": src, "tgt": tgt, "ev": rng.choice(EVENTS), "act": rng.choice(ACTIONS) if rng.random() < 0.6 else None,
            "guard": rng.choice(GUARDS) if rng.random() < 0.4 else None}

def text_of(m, name):
    """one PlantUML description; the lines of a region are written in a seeded random order (rows keep their relative
    order: it is their priority), the terminate lines possibly before a later region"""
    rng = random.Random(m["seed"])
    out = ["@startuml %s" % name, "state %s{" % name]
    for k, reg in enumerate(m["regions"]):
        if k:
            out.append("--")
        # initial and terminate lines are written with arrows of 1-4 dashes and 1-3 blanks too (seeded batch 13, C14d)
        long_arrows = m.get("seed") != 0.5
        out.append("[*]%s%s>%s%s" % (" " * rng.randint(1, 3), "-" * rng.randint(1, 4), " " * rng.randint(1, 3), reg[0]) if long_arrows
                   else "[*] -> %s" % reg[0])
        rows = [r for r in m["rows"] if r["src"] in reg]
        lines = []
        for r in rows:
            pad = " " * rng.randint(1, 3)
            arrow = "-" * rng.randint(1, 3) + ">"
            if r["tgt"] is None:
                l = "%s%s%s%s%s:%s-%s" % (r["src"], pad, arrow, pad, r["src"], pad, r["ev"])
            else:
                l = "%s%s%s%s%s:%s%s" % (r["src"], pad, arrow, pad, r["tgt"], pad, r["ev"])
            parts = []
            if r["act"]:
                parts.append("/ %s" % r["act"])
            if r["guard"]:
                parts.append("[%s]" % r["guard"])
            if len(parts) == 2 and rng.random() < 0.5:
                parts.reverse()
            lines.append(("row", l + "".join(pad + p for p in parts)))
        others = []
        for s in reg:
            if s in m["term"]:
                others.append("%s %s> [*]" % (s, "-" * m["term_arrow"]) if m.get("term_arrow") else
                              "%s%s%s>%s[*]" % (s, " " * rng.randint(1, 3), "-" * rng.randint(1, 4), " " * rng.randint(1, 3)) if long_arrows
                              else "%s -> [*]" % s)
            for a, g in m["entries"].get(s, []):
                others.append("%s : entry %s%s" % (s, a, " [%s]" % g if g else ""))
            for a, g in m["exits"].get(s, []):
                others.append("%s : exit %s%s" % (s, a, " [%s]" % g if g else ""))
            for f in m["flags"].get(s, []):
                others.append("%s : flag %s" % (s, f))
        # entry / exit lines of one state keep their written order (it is their execution order): insert in order
        merged = [l for _, l in lines]
        for o in others:
            same = [i for i, x in enumerate(merged) if x.split(" :")[0] == o.split(" :")[0] and (" : entry " in x or " : exit " in x)]
            lo = (max(same) + 1) if same and (" : entry " in o or " : exit " in o) else 0
            merged.insert(rng.randint(lo, len(merged)), o)
        out += merged
    out += ["}", "@enduml"]
    return "\n".join("    " + l for l in out) + "\n"

def _pm(regions, rows, term=(), entries=None, exits=None, flags=None):
    return {"regions": regions, "rows": [dict(src=a, tgt=b, ev=e, act=c, guard=g) for a, b, e, c, g in rows], "term": sorted(term),
            "entries": entries or {}, "exits": exits or {}, "flags": flags or {}, "seed": 0.5}

# the shapes of the repaired defects F23-F27 (known_findings.json), run first on every check
PINNED = [
    (_pm([["Open", "ReOpen"]], [("Open", "ReOpen", "e1", "act1", None)], term=["ReOpen"]), "PIN_F23_suffix_terminate"),
    (_pm([["A", "B"]], [("A", None, "e2", "act1", None), ("A", "B", "e1", None, None)], term=["B"]), "PIN_F24_internal_and_terminate"),
    (_pm([["A", "AA"], ["Idle", "Busy"]], [("A", "AA", "e1", None, None), ("Idle", "Busy", "e2", "act2", None), ("Busy", "Idle", "e2", None, None)],
         term=["AA"]), "PIN_F25_terminate_before_region"),
    (_pm([["A", "B"]], [("A", "B", "e1", None, None), ("B", "A", "e2", None, None)], entries={"B": [("log_exit", None)]},
         exits={"A": [("on_entry_done", "g1")]}, flags={"B": ["F1"]}), "PIN_F26_keyword_in_name"),
    (_pm([["A", "B"]], [("A", "B", "e1", None, None), ("B", "A", "e2", None, None)], entries={"A": [("act1", None)]},
         flags={"A": ["F2"]}), "PIN_F27_initial_state_with_lines"),
    (dict(_pm([["Run", "Done"], ["Idle", "Busy"]], [("Run", "Done", "e1", "act1", None), ("Idle", "Busy", "e2", "act2", None),
                                                    ("Busy", "Idle", "e2", None, None)], term=["Done"]), term_arrow=3),
     "PIN_long_arrow_terminate"),
]

def reference(m, script):
    """the intended meaning: list of log lines per operation"""
    regions = m["regions"]
    act = [reg[0] for reg in regions]
    logs = []
    def run_lines(lst, val, out):
        for a, g in lst:
            if g is not None:
                v = g in val
                out.append("G %s %d" % (g, v))
                if not v:
                    continue
            out.append("A %s" % a)
    def flags_line():
        return "F " + " ".join("%s=%d" % (f, any(f in m["flags"].get(s, []) for s in act)) for f in FLAGS)
    out = []
    for s in act:
        run_lines(m["entries"].get(s, []), set(), out)
    out.append(flags_line())
    logs.append(out)
    for ev, val in script:
        val = set(val)
        out = []
        if any(s in m["term"] for s in act):
            out.append("R 1")
            out.append(flags_line())
            logs.append(out)
            continue
        handled, rejected = False, False
        for k, reg in enumerate(regions):
            s = act[k]
            cands = [r for r in reversed(m["rows"]) if r["src"] == s and r["ev"] == ev]
            for r in cands:
                if r["guard"] is not None:
                    v = r["guard"] in val
                    out.append("G %s %d" % (r["guard"], v))
                    if not v:
                        rejected = True
                        continue
                handled = True
                if r["tgt"] is None:
                    if r["act"]:
                        out.append("A %s" % r["act"])
                else:
                    run_lines(m["exits"].get(s, []), val, out)
                    if r["act"]:
                        out.append("A %s" % r["act"])
                    act[k] = r["tgt"]
                    run_lines(m["entries"].get(r["tgt"], []), val, out)
                break
        if not handled and not rejected:
            out += ["NT"] * len(regions)
        out.append("R %d" % (1 if handled and not rejected else 3 if handled else 2 if rejected else 0))
        out.append(flags_line())
        logs.append(out)
    return logs

def gen_script(rng, n=10):
    return [(rng.choice(EVENTS), sorted(rng.sample(GUARDS, rng.randint(0, len(GUARDS))))) for _ in range(n)]

def cxx_of(machines):
    names = {"ev": set(EVENTS), "act": set(ACTIONS), "g": set(GUARDS), "f": set(FLAGS)}
    L = []
    w = L.append
    w("#include <boost/msm/back/state_machine.hpp>")
    w("#include <boost/msm/front/state_machine_def.hpp>")
    w("#include <boost/msm/front/puml/puml.hpp>")
    w("#include <cstdio>\n#include <set>\n#include <string>\n#include <sstream>\n#include <iostream>")
    w("namespace msm = boost::msm; using namespace msm::front; using namespace msm::front::puml;")
    w("static std::set<std::string> VAL;")
    w("namespace boost::msm::front::puml {")
    for e in sorted(names["ev"]):
        w("  template<> struct Event<by_name(\"%s\")> {};" % e)
    for a in sorted(names["act"]):
        w("  template<> struct Action<by_name(\"%s\")> { template <class E, class F, class S, class T> void operator()(E const&, F&, S&, T&) { std::printf(\"A %s\\n\"); } };" % (a, a))
    for g in sorted(names["g"]):
        w("  template<> struct Guard<by_name(\"%s\")> { template <class E, class F, class S, class T> bool operator()(E const&, F&, S&, T&) { bool v = VAL.count(\"%s\"); std::printf(\"G %s %%d\\n\", (int)v); return v; } };" % (g, g, g))
    for f in sorted(names["f"]):
        w("  template<> struct Flag<by_name(\"%s\")> {};" % f)
    w("}")
    for k, (m, name) in enumerate(machines):
        w("struct %s_ : msm::front::state_machine_def<%s_> {" % (name, name))
        w("  BOOST_MSM_PUML_DECLARE_TABLE(R\"(\n%s)\")" % text_of(m, name))
        w("  template <class F, class E> void no_transition(E const&, F&, int) { std::printf(\"NT\\n\"); }")
        w("};")
        w("typedef msm::back::state_machine<%s_> %s;" % (name, name))
    w("template <class M> void flags(M& m) { std::printf(\"F %s\\n\"%s); }" % (
        " ".join("%s=%%d" % f for f in FLAGS), "".join(", (int)m.template is_flag_active<Flag<by_name(\"%s\")>>()" % f for f in FLAGS)))
    w("template <class M> void drive(const char* name) {")
    w("  M m; std::string line; std::printf(\"M %s\\n\", name); VAL.clear(); m.start(); flags(m); std::printf(\"--\\n\");")
    w("  while (std::getline(std::cin, line)) { if (line == \"END\") break; std::istringstream is(line); std::string ev, g; is >> ev; VAL.clear(); while (is >> g) VAL.insert(g);")
    w("    int r = 0;")
    for e in EVENTS:
        w("    if (ev == \"%s\") r = (int)m.process_event(Event<by_name(\"%s\")>{});" % (e, e))
    w("    std::printf(\"R %d\\n\", r); flags(m); std::printf(\"--\\n\"); }")
    w("}")
    w("int main() {")
    for m, name in machines:
        w("  drive<%s>(\"%s\");" % (name, name))
    w("  return 0; }")
    return "\n".join(L) + "\n"

def build(machines, tag):
    src = cxx_of(machines)
    inc = os.environ.get("PUML_INCLUDE", "/repo/include")
    hdr = open(os.path.join(inc, "boost/msm/front/puml/puml.hpp")).read()
    key = hashlib.sha256((corr.repo_hash() + hdr + src).encode()).hexdigest()[:24]
    d = os.path.join(VERIF, ".cache", "puml_" + key)
    exe = os.path.join(d, "case")
    if os.path.exists(exe):
        return exe, None
    os.makedirs(d, exist_ok=True)
    cpp = os.path.join(d, "case.cpp")
    open(cpp, "w").write(src)
    r = subprocess.run(["g++", "-std=gnu++20", "-w", "-O0", "-I" + inc, cpp, "-o", exe], capture_output=True, text=True, timeout=1800)
    if r.returncode != 0:
        shutil.rmtree(d, ignore_errors=True)
        return None, r.stderr[-3000:]
    return exe, None

def run(seed, n_machines, stats=None, per_tu=3, jobs=8):
    """returns (mismatches, violations) in the shape checklib expects"""
    from concurrent.futures import ThreadPoolExecutor
    rng = random.Random("pumlmachines/%d" % seed)
    ms = list(PINNED) + [(gen_machine(rng), "PM%d_%d" % (seed, i)) for i in range(n_machines)]
    scripts = {name: [gen_script(random.Random("%s/%d" % (name, j)), 10) for j in range(1)] for _, name in ms}
    groups = [ms[i:i + per_tu] for i in range(0, len(ms), per_tu)]
    mism, viol = [], []
    def work(g):
        exe, err = build(g, "g")
        if exe is None:
            # a description of the documented grammar that does not compile: find the single machine
            res = []
            for one in g:
                e1, err1 = build([one], "one")
                if e1 is None:
                    res.append(("BUILD", one, err1))
                else:
                    res.append(("RUN", one, e1))
            return res
        return [("RUN", one, exe) for one in g]
    with ThreadPoolExecutor(jobs) as ex:
        results = [x for r in ex.map(work, groups) for x in r]
    outputs = {}
    for kind, (m, name), info in results:
        if kind == "BUILD":
            viol.append({"machine": name, "cfg": "back@puml", "md": {"puml": text_of(m, name), "description": m}, "ops": [],
                         "why": "a PlantUML description of the documented grammar does not compile: " + (info or "")[-400:].replace("\n", " ")})
            continue
        exe = info
        if exe not in outputs:
            grp = [nm for k2, (m2, nm), e2 in results if e2 == exe]
            inp = ""
            for nm in grp:
                inp += "".join("%s %s\n" % (ev, " ".join(val)) for ev, val in scripts[nm][0]) + "END\n"
            r = subprocess.run([exe], input=inp, capture_output=True, text=True, timeout=120)
            cur, blocks = None, {}
            for line in r.stdout.splitlines():
                if line.startswith("M "):
                    cur = line[2:]
                    blocks[cur] = [[]]
                elif line == "--":
                    blocks[cur].append([])
                elif cur is not None:
                    blocks[cur][-1].append(line)
            outputs[exe] = blocks
        got = [b for b in outputs[exe].get(name, []) if True]
        if got and got[-1] == []:
            got = got[:-1]
        exp = reference(m, scripts[name][0])
        # of the result code only "handled" (1 or 3) / "rejected" (2) / "nothing matched" (0) is specified
        norm = lambda bs: [["R 1" if l == "R 3" else l for l in b] for b in bs]
        got, exp = norm(got), norm(exp)
        if stats is not None:
            stats.traces += 1
            stats.dist[("puml machine", "regions %d" % len(m["regions"]), "terminate" if m["term"] else "no terminate")] += 1
        if got != exp:
            k = next((i for i in range(max(len(got), len(exp))) if i >= len(got) or i >= len(exp) or got[i] != exp[i]), 0)
            viol.append({"machine": name, "cfg": "back@puml", "md": {"puml": text_of(m, name), "description": m},
                         "ops": [["start"]] + [["process", ev, val] for ev, val in scripts[name][0][:k]],
                         "why": "PlantUML machine: operation %d: library %s, described machine %s" % (
                             k, got[k] if k < len(got) else None, exp[k] if k < len(exp) else None)})
    return mism, viol

if __name__ == "__main__":
    seed = int(sys.argv[1]) if len(sys.argv) > 1 else 1
    n = int(sys.argv[2]) if len(sys.argv) > 2 else 6
    class S:
        import collections
        traces = 0
        dist = collections.Counter()
    mm, vv = run(seed, n, S)
    for v in vv:
        print("VIOLATION", v["machine"], v["why"][:300])
        print(v["md"]["puml"])
    print("machines", n, "violations", len(vv), dict(S.dist))
