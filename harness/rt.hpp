// rt.hpp - runtime of the correspondence harness: trace logging, plan execution, operation loop.
// Included by every generated translation unit after the msm headers.
#pragma once
#include <cstdio>
#include <cstdlib>
#include <cstring>
#include <map>
#include <string>
#include <vector>
#include <sstream>
#include <iostream>
#include <stdexcept>
#include <type_traits>
#include <memory>

namespace H {

struct EvB { int ty; int pay; };

struct Cmd { char kind; int ty; int pay; };       // 't' throw, 'p' process_event, 'q' enqueue_event
inline std::map<int, Cmd>& plan() { static std::map<int, Cmd> p; return p; }
inline std::vector<bool>& val() { static std::vector<bool> v; return v; }
inline int& cbn() { static int n = 0; return n; }
inline std::map<std::string, std::vector<int>>& idmap() { static std::map<std::string, std::vector<int>> m; return m; }

inline std::map<std::string, std::string>& pathmap() { static std::map<std::string, std::string> m; return m; }
inline int lib_id(const char* declpath, int decl) { return idmap()[declpath][decl]; }
// declaration path "r.1.0" -> path of library ids
inline void fill_paths() {
  for (auto& kv : idmap()) {
    std::string decl = kv.first, cur = "r", out = "r";
    size_t pos = 1;
    while (pos < decl.size()) {
      size_t nx = decl.find('.', pos + 1);
      int k = std::atoi(decl.substr(pos + 1, nx == std::string::npos ? std::string::npos : nx - pos - 1).c_str());
      out += "." + std::to_string(idmap()[cur][k]);
      cur += "." + std::to_string(k);
      pos = nx == std::string::npos ? decl.size() : nx;
    }
    pathmap()[decl] = out;
  }
}
inline std::string lp(const char* declpath) { return pathmap()[declpath]; }
template <class F> std::vector<int> ids(F const& f) {
  std::vector<int> v;
  if constexpr (requires { f.get_active_state_ids(); }) { for (auto id : f.get_active_state_ids()) v.push_back((int)id); }
  else { for (int i = 0; i < F::nr_regions::value; ++i) v.push_back(f.current_state()[i]); }
  return v;
}

struct harness_error : std::runtime_error { using std::runtime_error::runtime_error; };

// ---- event description ----
struct EvInfo { int ty; int pay; int wrapped; };
template <class E> struct is_direct_wrapper : std::false_type {};
template <class T, class E> struct is_direct_wrapper<boost::msm::back::direct_entry_event<T, E>> : std::true_type {};
#ifdef H_HAS_BACK11
template <class T, class E> struct is_direct_wrapper<boost::msm::back11::direct_entry_event<T, E>> : std::true_type {};
#endif

template <class E> EvInfo info(E const& e);
template <class E> EvInfo info_any(E const& e);   // defined by the generated code (any_event / boost::any)

template <class E> EvInfo info(E const& e) {
  if constexpr (std::is_base_of_v<EvB, E>) { return EvInfo{e.ty, e.pay, 0}; }
  else if constexpr (std::is_same_v<E, boost::msm::front::none>) { return EvInfo{0, 0, 0}; }
  else if constexpr (is_direct_wrapper<E>::value) { EvInfo i = info(e.m_event); i.wrapped = 1; return i; }
  else { return info_any(e); }
}

// ---- observation of the fsm argument ----
template <class F> std::string obs(F const& f) {
  std::ostringstream os;
  if constexpr (requires { f.get_active_state_ids(); }) {
    bool first = true;
    for (auto id : f.get_active_state_ids()) { os << (first ? "" : ",") << (int)id; first = false; }
  } else {
    for (int i = 0; i < F::nr_regions::value; ++i) os << (i ? "," : "") << f.current_state()[i];
  }
  return os.str();
}

// ---- submission from behaviours (defined by generated code: switch over event types) ----
template <class F> void submit(F& f, int ty, int pay);
template <class F> void enqueue(F& f, int ty, int pay);

inline bool throwable(const char* tag) { return std::strcmp(tag, "NT") != 0 && std::strcmp(tag, "EC") != 0; }

template <class F> std::string flag_bits(F& f);
template <class E, class F>
void cb(const char* tag, const char* path, int id, E const& e, F& f) {
  EvInfo i = info(e);
  std::printf("%s %s %d e%d p%d w%d [%s]\n", tag, lp(path).c_str(), id, i.ty, i.pay, i.wrapped, obs(f).c_str());
#ifdef H_FLAGOBS
  // what is_flag_active answers inside the behaviours of the outermost machine (comment line, read by mon_C17_inside)
  if (path[0] == 'r' && path[1] == 0) std::printf("#FL %s %d %s\n", tag, id, flag_bits(f).c_str());
#endif
  int n = cbn()++;
  auto it = plan().find(n);
  if (it == plan().end()) return;
  Cmd c = it->second;
  if (c.kind == 't') { if (throwable(tag)) throw std::runtime_error("planned"); return; }
  if (c.kind == 'p') { std::printf("#SUB> %d %d\n", c.ty, c.pay); submit(f, c.ty, c.pay); std::printf("#SUB<\n"); return; }
  if (c.kind == 'q') { enqueue(f, c.ty, c.pay); return; }
}

template <class E, class F>
bool guard(const char* path, int id, E const& e, F& f) {
  bool r = id < (int)val().size() && val()[id];
  cb(r ? "G1" : "G0", path, id, e, f);
  return r;
}

// behaviours of the row2 front-end that are member functions of a state: they get the event only (no fsm argument)
template <class E>
void cb_nf(const char* tag, const char* path, int id, E const& e) {
  EvInfo i = info(e);
  std::printf("%s %s %d e%d p%d w%d [?]\n", tag, lp(path).c_str(), id, i.ty, i.pay, i.wrapped);
  int n = cbn()++;
  auto it = plan().find(n);
  if (it == plan().end()) return;
  Cmd c = it->second;
  if (c.kind == 't') { if (throwable(tag)) throw std::runtime_error("planned"); return; }
  throw harness_error("a behaviour without fsm argument cannot submit events");
}
template <class E>
bool guard_nf(const char* path, int id, E const& e) {
  bool r = id < (int)val().size() && val()[id];
  cb_nf(r ? "G1" : "G0", path, id, e);
  return r;
}

// ---- operation loop ----
inline void parse_val(std::istringstream& is) {
  val().assign(4096, false);
  std::string tok;
  while (is >> tok) { if (tok == "|") break; val()[std::atoi(tok.c_str())] = true; }
}
inline void parse_plan(std::istringstream& is) {
  plan().clear();
  std::string tok;
  while (is >> tok) {
    if (tok == "|") break;
    // idx:t  idx:p:ty:pay  idx:q:ty:pay
    int idx, ty = 0, pay = 0; char k;
    if (std::sscanf(tok.c_str(), "%d:%c:%d:%d", &idx, &k, &ty, &pay) >= 2) plan()[idx] = Cmd{k, ty, pay};
  }
}

}  // namespace H
