// store_probe.cpp - drives backmp11's basic_polymorphic directly: a family of event types (size, alignment,
// trivially copyable / non-trivial / throwing move / self-referential) and a script of make / copy / assign /
// move / destroy operations over a few cells.  Prints after each operation the value and storage kind of every cell
// and the number of live non-trivial objects.  Built with -fsanitize=address,undefined.
#include <boost/msm/backmp11/detail/basic_polymorphic.hpp>
#include <cstdio>
#include <cstring>
#include <iostream>
#include <set>
#include <sstream>
#include <string>
#include <vector>
#include <new>

struct Base {};
static long g_ctor = 0, g_dtor = 0;
static int g_errors = 0;
static std::set<const void*>& registry() { static std::set<const void*> r; return r; }
static void fail(const char* what) { std::printf("ERROR %s\n", what); ++g_errors; }

static unsigned char pat(int v, size_t i) { return (unsigned char)((v * 31 + (int)i * 7 + 3) & 0xff); }

template <size_t Size, size_t Align> struct alignas(Align) Bytes {
  unsigned char b[Size];
  void fill(int v) { for (size_t i = 0; i < Size; ++i) b[i] = pat(v, i); if (Size >= 2) { b[0] = (unsigned char)(v & 0xff); b[1] = (unsigned char)((v >> 8) & 0xff);} else b[0] = (unsigned char)(v & 0xff); }
  int value() const { return Size >= 2 ? b[0] | (b[1] << 8) : b[0]; }
  bool intact() const { int v = value(); for (size_t i = 2; i < Size; ++i) if (b[i] != pat(v, i)) return false; return true; }
};

// kind 0: trivially copyable
template <size_t Size, size_t Align> struct Triv : Base, Bytes<Size, Align> {
  explicit Triv(int v) { this->fill(v); }
};
// kind 1: non-trivial copy / move / destructor, instance counting and address registry
template <size_t Size, size_t Align, bool NothrowMove> struct NonTriv : Base, Bytes<Size, Align> {
  explicit NonTriv(int v) { this->fill(v); born(); }
  NonTriv(const NonTriv& o) : Base(o), Bytes<Size, Align>(o) { if (!o.alive()) fail("copy from dead object"); born(); }
  NonTriv(NonTriv&& o) noexcept(NothrowMove) : Base(o), Bytes<Size, Align>(o) { if (!o.alive()) fail("move from dead object"); born(); o.fill(0); }
  NonTriv& operator=(const NonTriv&) = delete;
  ~NonTriv() { if (!registry().erase(this)) fail("destructor on an object that is not alive (double destroy / garbage)"); ++g_dtor; }
  void born() { if (!registry().insert(this).second) fail("constructed over a live object"); ++g_ctor; }
  bool alive() const { return registry().count(this) != 0; }
};
// kind 3: self-referential
template <size_t Size, size_t Align> struct SelfRef : Base, Bytes<Size, Align> {
  const SelfRef* self;
  explicit SelfRef(int v) : self(this) { this->fill(v); born(); }
  SelfRef(const SelfRef& o) : Base(o), Bytes<Size, Align>(o), self(this) { if (o.self != &o) fail("self pointer of the source is stale"); born(); }
  SelfRef(SelfRef&& o) noexcept : Base(o), Bytes<Size, Align>(o), self(this) { if (o.self != &o) fail("self pointer of the source is stale"); born(); o.fill(0); }
  ~SelfRef() { if (self != this) fail("self pointer is stale at destruction"); if (!registry().erase(this)) fail("destructor on an object that is not alive"); ++g_dtor; }
  void born() { if (!registry().insert(this).second) fail("constructed over a live object"); ++g_ctor; }
};

using P = boost::msm::backmp11::detail::basic_polymorphic<Base>;

struct TypeOps {
  const char* name; size_t size, align; bool nothrow_move, trivial;
  P (*make)(int);
  int (*value)(const P&);
  bool (*intact)(const P&);
};
template <class U> static P mk(int v) { return P::make<U>(v); }
template <class U> static int val(const P& p) { return static_cast<const U*>(p.get())->value(); }
template <class U> static bool ok(const P& p) {
  const U* u = static_cast<const U*>(p.get());
  if (reinterpret_cast<uintptr_t>(u) % alignof(U) != 0) return false;
  return u->intact();
}
#define T(nt, tr, ...) TypeOps{#__VA_ARGS__, sizeof(__VA_ARGS__), alignof(__VA_ARGS__), nt, tr, &mk<__VA_ARGS__>, &val<__VA_ARGS__>, &ok<__VA_ARGS__>}
static std::vector<TypeOps> types() {
  return {
#include "store_types.inc"
  };
}

int main() {
  auto ts = types();
  const int N = 6;
  alignas(P) unsigned char raw[N][sizeof(P)];
  int tyof[N];
  P* cell[N];
  for (int i = 0; i < N; ++i) { cell[i] = new (raw[i]) P(); tyof[i] = -1; }
  std::string line;
  auto dump = [&]() {
    for (int i = 0; i < N; ++i) {
      if (tyof[i] < 0) { std::printf(" -"); continue; }
      const TypeOps& t = ts[tyof[i]];
      if (cell[i]->get() == nullptr) { std::printf(" null"); continue; }
      std::printf(" %c%d%s", cell[i]->is_inline() ? 'i' : 'h', t.value(*cell[i]), t.intact(*cell[i]) ? "" : "!CORRUPT");
    }
    std::printf(" | live %ld\n", g_ctor - g_dtor);
  };
  while (std::getline(std::cin, line)) {
    if (line.empty()) continue;
    std::istringstream is(line);
    std::string op; int i = 0, j = 0, ty = 0, v = 0;
    is >> op;
    if (op == "TYPES") { for (auto& t : ts) std::printf("TYPE %s %zu %zu %d %d\n", t.name, t.size, t.align, (int)t.nothrow_move, (int)t.trivial); continue; }
    if (op == "M") { is >> i >> ty >> v; cell[i]->~P(); new (raw[i]) P(ts[ty].make(v)); tyof[i] = ty; }
    else if (op == "C") { is >> i >> j; cell[i]->~P(); new (raw[i]) P(*cell[j]); tyof[i] = tyof[j]; }
    else if (op == "A") { is >> i >> j; *cell[i] = *cell[j]; tyof[i] = tyof[j]; }
    else if (op == "V") { is >> i >> j; cell[i]->~P(); new (raw[i]) P(std::move(*cell[j])); tyof[i] = tyof[j]; }
    else if (op == "W") { is >> i >> j; *cell[i] = std::move(*cell[j]); tyof[i] = tyof[j]; }
    else if (op == "D") { is >> i; cell[i]->~P(); new (raw[i]) P(); tyof[i] = -1; }
    else if (op == "X") { for (int k = 0; k < N; ++k) { cell[k]->~P(); new (raw[k]) P(); tyof[k] = -1; } }
    dump();
  }
  for (int k = 0; k < N; ++k) cell[k]->~P();
  std::printf("END live %ld errors %d\n", g_ctor - g_dtor, g_errors);
  return g_errors ? 1 : 0;
}
