"""storecheck.py - C20: basic_polymorphic driven directly (ASan + UBSan build) by random histories of make / copy /
assign / move / destroy over a family of event types; value, storage kind (inline / heap / null) of every cell and
the number of live non-trivial objects are compared with the Coq object-ledger model (coq/Store.v) after every
operation; the probe itself checks byte patterns, alignment, self pointers and its address registry."""
import hashlib, os, random, subprocess, shutil, tempfile
import corr

HERE = os.path.dirname(os.path.abspath(__file__))
SAN = ["-O1", "-g", "-fsanitize=address,undefined", "-fno-sanitize-recover=all"]

def build_probe():
    d = os.path.join(corr.CACHE, corr.repo_hash())
    os.makedirs(d, exist_ok=True)
    src = open(os.path.join(HERE, "store_probe.cpp")).read() + open(os.path.join(HERE, "store_types.inc")).read()
    exe = os.path.join(d, "store_probe_" + hashlib.sha256(src.encode()).hexdigest()[:12])
    if os.path.exists(exe):
        return exe, None
    tmpd = tempfile.mkdtemp(prefix="tmp.", dir=corr.CACHE)
    try:
        r = subprocess.run(["g++", "-std=gnu++20", "-w"] + SAN + ["-I", os.path.join(corr.REPO, "include"), "-I", HERE,
                            os.path.join(HERE, "store_probe.cpp"), "-o", os.path.join(tmpd, "p")], capture_output=True, text=True)
        if r.returncode != 0:
            return None, r.stderr[-3000:]
        os.replace(os.path.join(tmpd, "p"), exe)
        return exe, None
    finally:
        shutil.rmtree(tmpd, ignore_errors=True)

def gen_ops(rng, ntypes, n):
    ops = []
    for _ in range(n):
        x = rng.random()
        i, j = rng.randrange(6), rng.randrange(6)
        if x < 0.3:
            ops.append("M %d %d %d" % (i, rng.randrange(ntypes), rng.randrange(1, 250)))
        elif x < 0.45:
            ops.append("C %d %d" % (i, j))
        elif x < 0.6:
            ops.append("A %d %d" % (i, j))
        elif x < 0.72:
            ops.append("V %d %d" % (i, j))
        elif x < 0.84:
            ops.append("W %d %d" % (i, j))
        elif x < 0.97:
            ops.append("D %d" % i)
        else:
            ops.append("X")
    ops.append("X")
    return ops

def run(seed, n_histories, stats):
    exe, err = build_probe()
    if exe is None:
        return [{"machine": "store_probe", "cfg": "store", "kind": "build", "detail": err, "md": None, "ops": []}], []
    env = dict(os.environ, ASAN_OPTIONS="detect_leaks=1:abort_on_error=0", UBSAN_OPTIONS="print_stacktrace=1")
    types = subprocess.run([exe], input="TYPES\n", capture_output=True, text=True, env=env).stdout
    tlines = [l for l in types.splitlines() if l.startswith("TYPE ")]
    rng = random.Random("store/%d" % seed)
    mismatches, violations = [], []
    stats.programs += 1
    for h in range(n_histories):
        ops = gen_ops(rng, len(tlines), rng.randint(10, 60))
        inp = "\n".join(tlines + ops) + "\n"
        model = subprocess.run([corr.MODEL, "store"], input=inp, capture_output=True, text=True, timeout=60).stdout.splitlines()
        # only operations the model accepts as well-formed C++ (no construction over a live cell, no copy from a
        # moved-from heap object) are given to the library
        ok_ops = [o for o, m in zip(ops, model) if m != "SKIP"]
        exp = [m for m in model if m != "SKIP"]
        r = subprocess.run([exe], input="\n".join(ok_ops) + "\n", capture_output=True, text=True, env=env, timeout=60)
        got = r.stdout.splitlines()
        stats.traces += 1
        stats.evaluations += len(ok_ops)
        for o in ok_ops:
            stats.dist[("op", o.split()[0])] += 1
        stats.nontrivial.add(("history", tuple(ok_ops)))
        end = got[-1] if got else ""
        body = got[:-1]
        if r.returncode != 0 or "ERROR" in r.stdout or "CORRUPT" in r.stdout or "runtime error" in r.stderr or "AddressSanitizer" in r.stderr or not end.startswith("END live 0 errors 0"):
            violations.append({"machine": "basic_polymorphic history", "cfg": "store", "md": None, "ops": ok_ops,
                               "why": "sanitizer / ledger error: rc=%s %s %s" % (r.returncode, end, (r.stderr or r.stdout)[-600:])})
        elif body != exp:
            k = next((i for i in range(max(len(body), len(exp))) if i >= len(body) or i >= len(exp) or body[i] != exp[i]), None)
            mismatches.append({"machine": "basic_polymorphic history", "cfg": "store", "kind": "trace", "md": None, "ops": ok_ops[:k + 1] if k is not None else ok_ops,
                               "detail": {"op_index": k, "impl": body[k] if k is not None and k < len(body) else None,
                                          "model": exp[k] if k is not None and k < len(exp) else None}})
        if len(stats.samples) < 3:
            stats.samples.append({"ops": ok_ops[:12], "library": body[:12]})
    return mismatches, violations


def run_machines(seed, n, stats):
    """queue / deferral machines of the random generator, built with the sanitizers, for back and backmp11: the stored
    events (boost::function closures resp. pooled basic_polymorphic elements) are created, re-queued, dispatched and
    destroyed while ASan/UBSan watch; traces are compared with the model as usual"""
    import checklib, msmgen
    mismatches, violations = [], []
    env_keys = {"ASAN_OPTIONS": "detect_leaks=1"}
    os.environ.update(env_keys)
    from concurrent.futures import ThreadPoolExecutor
    jobs = []
    for profile in ("rtc", "defer"):
        for name, g, md in checklib.machines_for(profile, seed, n):
            for c in ("back", "mp11"):
                md2 = msmgen.adapt(md, c)
                if md2 is not None:
                    jobs.append((profile, name, g, md2, c))
    with ThreadPoolExecutor(8) as ex:
        built = list(ex.map(lambda j: corr.build_binary(j[3], j[4], extra_flags=tuple(SAN)), jobs))
    for (profile, name, g, md2, c), (exe, dt, err) in zip(jobs, built):
        if exe is None:
            mismatches.append({"machine": name, "cfg": c, "kind": "build", "detail": (err or "")[-1500:], "md": md2, "ops": []})
            continue
        stats.programs += 1
        for _ in range(2):
            ops = g.gen_ops_queue(md2, 14) if profile == "rtc" else g.gen_ops(md2, 14)
            r = corr.compare(md2, c, ops, exe)
            if r.get("bad"):
                continue
            stats.traces += 1
            stats.evaluations += len(ops)
            if r.get("rc", 0) != 0:
                violations.append({"machine": name, "cfg": c, "md": md2, "ops": ops,
                                   "why": "sanitizer error (exit code %s) in a %s machine with stored events" % (r.get("rc"), c)})
            elif not r["ok"]:
                mismatches.append({"machine": name, "cfg": c, "kind": "trace", "detail": r.get("first_diff"), "md": md2, "ops": ops})
    return mismatches, violations
