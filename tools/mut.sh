#!/bin/bash
# usage: mut.sh <id> <extra link flags> -- checks...
p=$1; shift; lf=$1; shift
cd /verif/seeded/$p
g++ -std=gnu++20 -w -I/repo/include demo.cpp -o /verif/.cache/demo_$p $lf 2>/verif/.cache/demo_$p.err; /verif/.cache/demo_$p >/dev/null 2>&1; echo "$p demo clean rc=$?"
git -C /repo apply /verif/seeded/$p/patch.diff
g++ -std=gnu++20 -w -I/repo/include demo.cpp -o /verif/.cache/demo_$p $lf 2>/verif/.cache/demo_$p.err; /verif/.cache/demo_$p >/dev/null 2>&1; echo "$p demo mutant rc=$?"
cd /verif
for c in "$@"; do
  out=$(./check $c --tier quick 2>&1); rc=$?
  echo "$p check $c rc=$rc $(echo "$out" | grep -E 'VIOLATION' | cut -c1-200 | tr '\n' ';') $(echo "$out" | tail -1)"
done
git -C /repo checkout -- .
# the evidence files written while the change was applied describe the changed tree: restore the committed ones
git -C /verif checkout -- evidence
rm -f /verif/.cache/demo_$p
