#!/usr/bin/env python3
"""regen.py - translator: regenerates coq/Generated.v from /repo's headers on every run.

Two mechanisms, both driven by the current source text:
 * behavioural probes: a C++ program compiled against /repo/include instantiates the library's own
   combinators (chain_row of back / back11 / favor_compile_time, backmp11's transition_chain, the four
   active_state_switch policies) with stub rows and tabulates them over all result codes;
 * condition extraction: the text of a few `if (...)` conditions is cut out of the headers at named anchors,
   pasted into the probe and tabulated over all result codes.
If an anchor is not found, or the probe does not compile, regeneration fails and the caller reports the
proof obligations that depend on Generated.v as no longer checked.
"""
import os, re, subprocess, sys, tempfile, hashlib, shutil

VERIF = os.path.dirname(os.path.dirname(os.path.abspath(__file__)))
REPO = os.environ.get("MSM_REPO", "/repo")
INC = os.path.join(REPO, "include")

class RegenError(Exception):
    pass

def read(rel):
    return open(os.path.join(INC, "boost", "msm", rel)).read()

def cond_after(text, anchor_re, what):
    """the parenthesised condition of the first `if`/`while` after the anchor"""
    m = re.search(anchor_re, text, re.S)
    if not m:
        raise RegenError("anchor not found: " + what)
    i = text.find("(", m.end() - 1) if text[m.end() - 1] == "(" else text.find("(", m.end())
    depth, j = 0, i
    while j < len(text):
        if text[j] == "(":
            depth += 1
        elif text[j] == ")":
            depth -= 1
            if depth == 0:
                break
        j += 1
    return " ".join(text[i + 1:j].split())

PROBE = r'''
#include <cstdio>
#include <vector>
PRE_INCLUDES
#define private public
#define protected public
#include <boost/msm/back/state_machine.hpp>
#include <boost/msm/back/favor_compile_time.hpp>
#include <boost/msm/back11/state_machine.hpp>
#include <boost/msm/backmp11/state_machine.hpp>
#undef private
#undef protected
#include <boost/msm/active_state_switching_policies.hpp>
#include <boost/mpl/vector.hpp>
using namespace boost::msm;
using boost::msm::back::HandledEnum;
struct FakeFsm {};
struct Ev {};
static int codes[4];
static std::vector<int> calls;
template <int I> struct Stub {
  typedef FakeFsm current_state_type; typedef FakeFsm next_state_type; typedef Ev transition_event;
  static HandledEnum execute(FakeFsm&, int, int, Ev const&) { calls.push_back(I); return (HandledEnum)codes[I]; }
  static HandledEnum execute(FakeFsm&, unsigned char, Ev const&) { calls.push_back(I); return (HandledEnum)codes[I]; }
  static HandledEnum execute11(FakeFsm&, int, int, Ev&) { calls.push_back(I); return (HandledEnum)codes[I]; }
};
typedef boost::mpl::vector0<> EmptyStt;
template <class Chain> void tab_chain(const char* name) {
  FakeFsm f; Ev e;
  std::printf("%s_continue", name);
  for (int a = 0; a < 8; ++a) { codes[0] = a; codes[1] = 0; calls.clear(); Chain::execute(f, 0, 0, e); std::printf(" %d", (int)(calls.size() > 1)); }
  std::printf("\n%s_merge", name);
  for (int a = 0; a < 8; ++a) for (int b = 0; b < 8; ++b) {
    // the value the rest of the chain returns is b when b is one of 0,1,2,4 (the only values a rest can produce
    // from a single row); other columns repeat the identity so the table is total
    int reachable = (b == 0 || b == 1 || b == 2 || b == 4);
    codes[0] = a; codes[1] = b; calls.clear();
    int r = (int)Chain::execute(f, 0, 0, e);
    std::printf(" %d", (reachable && calls.size() > 1) ? r : b);
  }
  std::printf("\n");
}
template <class Chain> void tab_chain11(const char* name) {
  FakeFsm f; Ev e;
  std::printf("%s_continue", name);
  for (int a = 0; a < 8; ++a) { codes[0] = a; codes[1] = 0; calls.clear(); Chain::execute(f, 0, 0, e); std::printf(" %d", (int)(calls.size() > 1)); }
  std::printf("\n%s_merge", name);
  for (int a = 0; a < 8; ++a) for (int b = 0; b < 8; ++b) {
    int reachable = (b == 0 || b == 1 || b == 2 || b == 4);
    codes[0] = a; codes[1] = b; calls.clear();
    int r = (int)Chain::execute(f, 0, 0, e);
    std::printf(" %d", (reachable && calls.size() > 1) ? r : b);
  }
  std::printf("\n");
}
HandledEnum fstub0(FakeFsm&, int, int, Ev const&) { calls.push_back(0); return (HandledEnum)codes[0]; }
HandledEnum fstub1(FakeFsm&, int, int, Ev const&) { calls.push_back(1); return (HandledEnum)codes[1]; }

template <class P> void tab_policy() {
  std::printf(" %d %d %d %d", P::after_guard(0, 1), P::after_exit(0, 1), P::after_action(0, 1), P::after_entry(0, 1));
}
// conditions cut out of the source
static bool cond_back_internal(int r) { using namespace boost::msm::back; HandledEnum result = (HandledEnum)r; return (COND_BACK_INTERNAL); }
static bool cond_back11_internal(int r) { using namespace boost::msm::back; HandledEnum result = (HandledEnum)r; return (COND_BACK11_INTERNAL); }
static bool cond_back_deferred(int r) { boost::msm::back::execute_return res = (boost::msm::back::HandledEnum)r; return (COND_BACK_DEFERRED); }
static bool cond_mp11_internal(int r) { using namespace boost::msm::backmp11; using namespace boost::msm::backmp11::detail; process_result result = (process_result)r; return (COND_MP11_INTERNAL); }

int main() {
  using namespace boost::msm::back;
  std::printf("HANDLED_FALSE %d\nHANDLED_TRUE %d\nHANDLED_GUARD_REJECT %d\nHANDLED_DEFERRED %d\n",
              (int)HANDLED_FALSE, (int)HANDLED_TRUE, (int)HANDLED_GUARD_REJECT, (int)HANDLED_DEFERRED);
  std::printf("SRC_DEFAULT %d\nSRC_DIRECT %d\nSRC_DEFERRED %d\nSRC_MSG_QUEUE %d\n",
              (int)EVENT_SOURCE_DEFAULT, (int)EVENT_SOURCE_DIRECT, (int)EVENT_SOURCE_DEFERRED, (int)EVENT_SOURCE_MSG_QUEUE);
  std::printf("handled_true_or_deferred %d\n", (int)boost::msm::backmp11::detail::handled_true_or_deferred);
  std::printf("policy_table");
  tab_policy<active_state_switch_after_entry>(); tab_policy<active_state_switch_after_transition_action>();
  tab_policy<active_state_switch_after_exit>(); tab_policy<active_state_switch_before_transition>();
  std::printf("\n");
  typedef boost::msm::back::dispatch_table<FakeFsm, EmptyStt, Ev, boost::msm::back::favor_runtime_speed> DT;
  tab_chain<DT::chain_row<boost::mpl::vector<Stub<0>, Stub<1> >, Ev, FakeFsm> >("back_chain");
  typedef boost::msm::back11::dispatch_table<FakeFsm, EmptyStt, Ev, boost::msm::back::favor_runtime_speed> DT11;
  tab_chain11<DT11::chain_row<boost::mpl::vector<Stub<0>, Stub<1> >, Ev, FakeFsm> >("back11_chain");
  {
    typedef boost::msm::back::dispatch_table<FakeFsm, EmptyStt, Ev, boost::msm::back::favor_compile_time> DTF;
    FakeFsm f; Ev e;
    std::printf("fct_chain_continue");
    for (int a = 0; a < 8; ++a) {
      DTF::chain_row c; c.one_state.push_back(&fstub0); c.one_state.push_back(&fstub1);
      codes[0] = a; codes[1] = 0; calls.clear(); c(f, 0, 0, e); std::printf(" %d", (int)(calls.size() > 1));
    }
    std::printf("\nfct_chain_step");
    for (int a = 0; a < 8; ++a) for (int b = 0; b < 8; ++b) {
      DTF::chain_row c; c.one_state.push_back(&fstub0); c.one_state.push_back(&fstub1);
      codes[0] = a; codes[1] = b; calls.clear(); int r = (int)c(f, 0, 0, e);
      std::printf(" %d", calls.size() > 1 ? r : b);
    }
    std::printf("\n");
  }
  {
    using namespace boost::msm::backmp11::detail;
    FakeFsm f; Ev e;
    typedef transition_chain<FakeFsm, FakeFsm, boost::mp11::mp_list<Stub<0>, Stub<1> >, Ev> TC;
    std::printf("mp11_chain_stop");
    for (int a = 0; a < 8; ++a) { codes[0] = a; codes[1] = 0; calls.clear(); TC::execute(f, 0, e); std::printf(" %d", (int)(calls.size() == 1)); }
    std::printf("\nmp11_chain_mask");
    for (int a = 0; a < 8; ++a) { codes[0] = a; codes[1] = 0; calls.clear(); int r = (int)TC::execute(f, 0, e); std::printf(" %d", calls.size() == 1 ? r : a); }
    std::printf("\nmp11_chain_or");   // sanity: with a non-stopping first row the chain returns mask(a|b) or a|b
    for (int a = 0; a < 8; ++a) for (int b = 0; b < 8; ++b) { codes[0] = a; codes[1] = b; calls.clear(); int r = (int)TC::execute(f, 0, e); std::printf(" %d", r); }
    std::printf("\n");
  }
  std::printf("back_internal_tried"); for (int r = 0; r < 8; ++r) std::printf(" %d", (int)cond_back_internal(r)); std::printf("\n");
  std::printf("back11_internal_tried"); for (int r = 0; r < 8; ++r) std::printf(" %d", (int)cond_back11_internal(r)); std::printf("\n");
  std::printf("back_deferred_stops"); for (int r = 0; r < 8; ++r) std::printf(" %d", (int)cond_back_deferred(r)); std::printf("\n");
  std::printf("mp11_internal_tried"); for (int r = 0; r < 8; ++r) std::printf(" %d", (int)cond_mp11_internal(r)); std::printf("\n");
  {
    typedef boost::msm::back::state_machine<int> never;  (void)sizeof(never*);
  }
  std::printf("back_seq_bits %d\nback_seq_signed %d\n", (int)(8 * sizeof(SEQ_BACK_T)), (int)std::is_signed<SEQ_BACK_T>::value);
  std::printf("mp11_seq_bits %d\nmp11_seq_signed %d\n", (int)(8 * sizeof(SEQ_MP11_T)), (int)std::is_signed<SEQ_MP11_T>::value);
  return 0;
}
'''

# behavioural probe of whole machines (public interface only): a submachine whose initial state's entry behaviour
# throws while it is entered under active_state_switch_before_transition; is the submachine usable afterwards?
PROBE2 = r'''#include <cstdio>
#include <stdexcept>
#include <boost/mpl/vector.hpp>
#include <boost/msm/back/state_machine.hpp>
#include <boost/msm/back11/state_machine.hpp>
#include <boost/msm/backmp11/state_machine.hpp>
#include <boost/msm/front/state_machine_def.hpp>
#include <boost/msm/front/functor_row.hpp>
#include <boost/msm/active_state_switching_policies.hpp>
namespace msm = boost::msm; namespace mpl = boost::mpl;
using msm::front::Row; using msm::front::none;
namespace P {
struct go {}; struct other {};
struct SubDef : msm::front::state_machine_def<SubDef> {
  struct S1 : msm::front::state<> { template <class E, class F> void on_entry(E const&, F&) { throw std::runtime_error("entry"); } };
  struct S2 : msm::front::state<> {};
  typedef S1 initial_state;
  struct transition_table : mpl::vector<Row<S1, other, S2>> {};
  template <class F, class E> void no_transition(E const&, F&, int) {}
  template <class F, class E> void exception_caught(E const&, F&, std::exception&) {}
};
template <class Sub> struct RootDef : msm::front::state_machine_def<RootDef<Sub>> {
  struct A : msm::front::state<> {};
  typedef A initial_state;
  typedef msm::active_state_switch_before_transition active_state_switch_policy;
  struct transition_table : mpl::vector<Row<A, go, Sub>> {};
  template <class F, class E> void no_transition(E const&, F&, int) {}
  template <class F, class E> void exception_caught(E const&, F&, std::exception&) {}
};
template <class Sub, class Root> int run() {
  Root r; r.start(); r.process_event(go()); r.process_event(other());
  return (int)(r.template get_state<Sub&>().current_state()[0] == 1);
}
}
namespace Q {
struct go {};
static int in_entry = 0, reentrant = 0;
struct Def : msm::front::state_machine_def<Def> {
  struct A : msm::front::state<> { template <class E, class F> void on_entry(E const&, F& f) { in_entry = 1; f.process_event(go()); in_entry = 0; } };
  struct B : msm::front::state<> {};
  struct Act { template <class E, class F, class S, class T> void operator()(E const&, F&, S&, T&) { if (in_entry) reentrant = 1; } };
  typedef A initial_state;
  struct transition_table : mpl::vector<Row<A, go, B, Act>> {};
  template <class F, class E> void no_transition(E const&, F&, int) {}
};
template <class SM> int run() { in_entry = 0; reentrant = 0; SM m; m.start(); return !reentrant; }
}
int main() {
  std::printf("back_start_queues %d\n", Q::run<msm::back::state_machine<Q::Def>>());
  std::printf("back11_start_queues %d\n", Q::run<msm::back11::state_machine<Q::Def>>());
  std::printf("mp11_start_queues %d\n", Q::run<msm::backmp11::state_machine<Q::Def>>());
  { typedef msm::back::state_machine<P::SubDef> Sub; typedef msm::back::state_machine<P::RootDef<Sub>> Root;
    std::printf("back_entry_throw_resets %d\n", P::run<Sub, Root>()); }
  { typedef msm::back11::state_machine<P::SubDef> Sub; typedef msm::back11::state_machine<P::RootDef<Sub>> Root;
    std::printf("back11_entry_throw_resets %d\n", P::run<Sub, Root>()); }
  { typedef msm::backmp11::state_machine<P::SubDef> Sub; typedef msm::backmp11::state_machine<P::RootDef<Sub>> Root;
    Root r; r.start(); r.process_event(P::go()); r.process_event(P::other());
    std::printf("mp11_entry_throw_resets %d\n", (int)(r.get_state<Sub>().get_active_state_ids()[0] == 1)); }
}
'''

def member_type(text, member_re, what):
    m = re.search(member_re, text)
    if not m:
        raise RegenError("member not found: " + what)
    return m.group(1).strip()

def pre_includes():
    """headers that the msm headers include directly from outside boost/msm, in inclusion order; they are
    included before `#define private public` so that the define only affects the msm headers themselves"""
    tops = ["boost/msm/back/state_machine.hpp", "boost/msm/back/favor_compile_time.hpp",
            "boost/msm/back11/state_machine.hpp", "boost/msm/backmp11/state_machine.hpp",
            "boost/msm/active_state_switching_policies.hpp"]
    r = subprocess.run(["g++", "-std=gnu++20", "-w", "-H", "-fsyntax-only", "-I", INC, "-x", "c++", "-"],
                       input="".join("#include <%s>\n" % t for t in tops), capture_output=True, text=True)
    if r.returncode != 0:
        raise RegenError("headers do not compile:\n" + r.stderr[-2000:])
    msm_root = os.path.join(INC, "boost", "msm")
    out, seen, stack = [], set(), []
    for line in r.stderr.splitlines():
        m = re.match(r"^(\.+) (.*)$", line)
        if not m:
            continue
        depth, path = len(m.group(1)), os.path.normpath(m.group(2))
        stack = stack[:depth - 1] + [path]
        inside = path.startswith(msm_root)
        parent_inside = depth == 1 or stack[depth - 2].startswith(msm_root)
        if not inside and parent_inside and path not in seen:
            seen.add(path)
            out.append('#include "%s"' % path)
    return "\n".join(out)

def probe_values(cache_dir=None):
    back = read("back/state_machine.hpp")
    back11 = read("back11/state_machine.hpp")
    mp11 = read("backmp11/detail/state_machine_base.hpp")
    conds = {
        "COND_BACK_INTERNAL": cond_after(back, r"static void do_process\(Event const& evt,library_sm\* self_,HandledEnum& result, ::boost::mpl::true_\)\s*\{\s*(?://[^\n]*\n\s*)*if\s*\(", "back process_fsm_internal_table"),
        "COND_BACK11_INTERNAL": cond_after(back11, r"struct process_fsm_internal_table.*?::boost::mpl::true_\)\s*\{\s*(?://[^\n]*\n\s*)*if\s*\(", "back11 process_fsm_internal_table"),
        "COND_BACK_DEFERRED": cond_after(back, r"boost::msm::back::execute_return res = next\(\);\s*(?://[^\n]*\n\s*)*if\s*\(", "back do_handle_deferred"),
        "COND_MP11_INTERNAL": cond_after(mp11, r"Dispatch the event to the SM-internal table if it hasn't been consumed yet\.\s*(?://[^\n]*\n\s*)*if\s*\(", "backmp11 do_process_event"),
    }
    seq_back = member_type(back, r"\n\s*([A-Za-z_][A-Za-z_0-9 ]*?)\s+m_cur_seq;", "back m_cur_seq")
    seq_mp11 = member_type(mp11, r"\n\s*([A-Za-z_][A-Za-z_0-9:]*)\s+cur_seq_cnt\s*\{", "backmp11 cur_seq_cnt")
    src = PROBE.replace("PRE_INCLUDES", pre_includes())
    for k, v in conds.items():
        src = src.replace(k, v)
    src = src.replace("SEQ_BACK_T", seq_back).replace("SEQ_MP11_T", seq_mp11)
    key = hashlib.sha256(src.encode()).hexdigest()[:16]
    # the probe depends on every header, so the cache key includes them
    h = hashlib.sha256((src + PROBE2).encode())
    root = os.path.join(INC, "boost", "msm")
    for d, _, fs in sorted(os.walk(root)):
        for f in sorted(fs):
            h.update(open(os.path.join(d, f), "rb").read())
    key = h.hexdigest()[:20]
    cache_dir = cache_dir or os.path.join(VERIF, ".cache")
    os.makedirs(cache_dir, exist_ok=True)
    out_file = os.path.join(cache_dir, "probe_%s.txt" % key)
    if os.path.exists(out_file):
        return open(out_file).read(), conds
    tmpd = tempfile.mkdtemp(prefix="tmp.probe.", dir=cache_dir)
    try:
        cpp = os.path.join(tmpd, "probe.cpp")
        open(cpp, "w").write(src)
        cpp2 = os.path.join(tmpd, "probe2.cpp")
        open(cpp2, "w").write(PROBE2)
        p2 = subprocess.Popen(["g++", "-std=gnu++20", "-O0", "-w", "-I", INC, cpp2, "-o", os.path.join(tmpd, "probe2")],
                              stdout=subprocess.PIPE, stderr=subprocess.PIPE, text=True)
        r = subprocess.run(["g++", "-std=gnu++20", "-O0", "-w", "-I", INC, cpp, "-o", os.path.join(tmpd, "probe")],
                           capture_output=True, text=True)
        _, err2 = p2.communicate()
        if r.returncode != 0:
            raise RegenError("probe does not compile:\n" + r.stderr[-3000:])
        if p2.returncode != 0:
            raise RegenError("machine probe does not compile:\n" + err2[-3000:])
        out = subprocess.run([os.path.join(tmpd, "probe")], capture_output=True, text=True, timeout=30).stdout
        out += subprocess.run([os.path.join(tmpd, "probe2")], capture_output=True, text=True, timeout=30).stdout
        open(out_file, "w").write(out)
        return out, conds
    finally:
        shutil.rmtree(tmpd, ignore_errors=True)

def render(out, conds):
    vals = {}
    for line in out.splitlines():
        t = line.split()
        if t:
            vals[t[0]] = list(map(int, t[1:]))
    def need(k, n):
        if k not in vals or len(vals[k]) != n:
            raise RegenError("probe output missing " + k)
        return vals[k]
    b = lambda l: "[" + "; ".join("true" if x else "false" for x in l) + "]"
    n = lambda l: "[" + "; ".join(str(x) for x in l) + "]"
    def tab(l, w):
        return "[ " + ";\n    ".join(n(l[i:i + w]) for i in range(0, len(l), w)) + " ]"
    L = []
    w = L.append
    w("(* Generated.v - REGENERATED on every check run by tools/regen.py from /repo's headers.")
    w("   Do not edit by hand: the committed copy is only the result of the last run. *)")
    w("From Coq Require Import List. Import ListNotations.")
    w("")
    w("(* back/common_types.hpp : HandledEnum, EventSourceEnum ; backmp11/common_types.hpp *)")
    for k in ("HANDLED_FALSE", "HANDLED_TRUE", "HANDLED_GUARD_REJECT", "HANDLED_DEFERRED",
              "SRC_DEFAULT", "SRC_DIRECT", "SRC_DEFERRED", "SRC_MSG_QUEUE", "handled_true_or_deferred"):
        w("Definition %s := %d." % (k, need(k, 1)[0]))
    w("")
    w("(* active_state_switching_policies.hpp, tabulated by calling the four functions of each policy with (0,1):")
    w("   rows: after_entry, after_transition_action, after_exit, before_transition")
    w("   columns: after_guard, after_exit, after_action, after_entry ; true = the function returned next_state *)")
    pt = need("policy_table", 16)
    w("Definition policy_table : list (list bool) :=\n  [ " + ";\n    ".join(b(pt[i:i + 4]) for i in range(0, 16, 4)) + " ].")
    w("")
    w("(* chain_row::execute_helper of back and back11, instantiated with two stub rows and tabulated:")
    w("   continue res = is the rest of the chain executed after a first row returning res;")
    w("   merge res sub = the value returned when the rest returned sub *)")
    w("Definition back_chain_continue : list bool := %s." % b(need("back_chain_continue", 8)))
    w("Definition back_chain_merge : list (list nat) :=\n  %s." % tab(need("back_chain_merge", 64), 8))
    w("Definition back11_chain_continue : list bool := %s." % b(need("back11_chain_continue", 8)))
    w("Definition back11_chain_merge : list (list nat) :=\n  %s." % tab(need("back11_chain_merge", 64), 8))
    w("(* favor_compile_time chain_row::operator(): the loop runs while continue res; step res handled *)")
    w("Definition fct_chain_continue : list bool := %s." % b(need("fct_chain_continue", 8)))
    w("Definition fct_chain_step : list (list nat) :=\n  %s." % tab(need("fct_chain_step", 64), 8))
    w("(* conditions cut out of the source and tabulated over the result codes 0..7 *)")
    w("(* back process_fsm_internal_table:   %s *)" % conds["COND_BACK_INTERNAL"])
    w("Definition back_internal_tried : list bool := %s." % b(need("back_internal_tried", 8)))
    w("(* back11 process_fsm_internal_table: %s *)" % conds["COND_BACK11_INTERNAL"])
    w("Definition back11_internal_tried : list bool := %s." % b(need("back11_internal_tried", 8)))
    w("(* back do_handle_deferred:           %s *)" % conds["COND_BACK_DEFERRED"])
    w("Definition back_deferred_stops : list bool := %s." % b(need("back_deferred_stops", 8)))
    w("(* backmp11 transition_chain::execute with stub rows: stop acc / value returned when it stops *)")
    w("Definition mp11_chain_stop : list bool := %s." % b(need("mp11_chain_stop", 8)))
    w("Definition mp11_chain_mask : list nat := %s." % n(need("mp11_chain_mask", 8)))
    w("(* backmp11 do_process_event:         %s *)" % conds["COND_MP11_INTERNAL"])
    w("Definition mp11_internal_tried : list bool := %s." % b(need("mp11_internal_tried", 8)))
    w("")
    w("(* sequence counters: width in bits and signedness of the member types m_cur_seq / cur_seq_cnt *)")
    w("Definition back_seq_bits := %d." % need("back_seq_bits", 1)[0])
    w("Definition back_seq_signed := %s." % ("true" if need("back_seq_signed", 1)[0] else "false"))
    w("Definition mp11_seq_bits := %d." % need("mp11_seq_bits", 1)[0])
    w("Definition mp11_seq_signed := %s." % ("true" if need("mp11_seq_signed", 1)[0] else "false"))
    w("")
    w("(* whole-machine probe: a submachine is entered and its initial state's entry behaviour throws; true = the")
    w("   submachine's processing marker is cleared (the next event given to it is dispatched, not stored) *)")
    for k in ("back_entry_throw_resets", "back11_entry_throw_resets", "mp11_entry_throw_resets"):
        w("Definition %s := %s." % (k, "true" if need(k, 1)[0] else "false"))
    w("(* whole-machine probe: an initial state's entry behaviour calls fsm.process_event during start(); true = the event is")
    w("   stored and dispatched after the entry behaviours, false = it is dispatched re-entrantly inside the entry behaviour *)")
    for k in ("back_start_queues", "back11_start_queues", "mp11_start_queues"):
        w("Definition %s := %s." % (k, "true" if need(k, 1)[0] else "false"))
    # consistency of the probe itself: the 2-row chain of backmp11 must be explained by stop/mask
    orv, stop, mask = need("mp11_chain_or", 64), need("mp11_chain_stop", 8), need("mp11_chain_mask", 8)
    for a in range(8):
        for c in range(8):
            exp = mask[a] if stop[a] else (mask[a | c] if stop[a | c] else a | c)
            if orv[a * 8 + c] != exp:
                raise RegenError("backmp11 transition_chain is not of the or/stop/mask form at (%d,%d): %d" % (a, c, orv[a * 8 + c]))
    return "\n".join(L) + "\n"

def main():
    target = os.path.join(VERIF, "coq", "Generated.v")
    try:
        out, conds = probe_values()
        text = render(out, conds)
    except RegenError as e:
        print("REGEN-FAILED: " + str(e))
        return 1
    old = open(target).read() if os.path.exists(target) else None
    if old != text:
        open(target, "w").write(text)
        print("Generated.v rewritten")
    else:
        print("Generated.v unchanged")
    return 0

if __name__ == "__main__":
    sys.exit(main())
