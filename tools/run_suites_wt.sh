#!/bin/bash
for p in "$@"; do
  wt=/tmp/wt_$p
  ( cd $wt && rm -rf _build && cmake -G Ninja -S . -B _build -DCMAKE_BUILD_TYPE=RelWithDebInfo -DCMAKE_CXX_FLAGS=-Wno-error -DBUILD_TESTING=ON > _cmake.log 2>&1
    cmake --build _build --target tests -j12 > _build.log 2>&1
    rc=$?
    res=""
    for t in boost_msm_tests boost_msm_cxx17_tests boost_msm_euml_tests boost_msm_cxx20_tests; do
      if [ -x _build/test/$t ]; then res="$res $(./_build/test/$t --report_level=short 2>&1 | grep -E 'test cases out of|failed' | head -1 | tr -s ' ')"; else res="$res MISSING:$t"; fi
    done
    echo "$p build_rc=$rc $res" >> /tmp/suites_head.txt
    rm -rf _build )
done
echo ALL_DONE >> /tmp/suites_head.txt
