#!/bin/bash
# runs every claimed check (quick tier by default) and prints one summary line each
cd "$(dirname "$0")/.."
tier=${1:-quick}
for p in C01 C02 C03 C04 C05 C06 C07 C08 C09 C10 C11 C12 C13 C14 C15 C16 C17 C18 C19 C20; do
  s=$(date +%s)
  out=$(./check $p --tier $tier 2>&1)
  rc=$?
  e=$(date +%s)
  echo "$p rc=$rc $((e-s))s $(echo "$out" | grep -E 'VIOLATION|KNOWN' | cut -c1-120 | tr '\n' ';') $(echo "$out" | tail -1)"
done
