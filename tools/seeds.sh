#!/bin/bash
cd "$(dirname "$0")/.."
for seed in "$@"; do
  for p in C01 C02 C03 C04 C05 C06 C07 C08 C09 C10 C11 C12 C13 C14 C15 C16 C17 C18 C19 C20; do
    s=$(date +%s)
    out=$(VERIF_SEED=$seed ./check $p --tier quick 2>&1); rc=$?
    e=$(date +%s)
    echo "seed=$seed $p rc=$rc $((e-s))s $(echo "$out" | grep -E 'VIOLATION' | cut -c1-160 | tr '\n' ';') $(echo "$out" | tail -1)"
  done
done
echo SEEDS_DONE
